"""C13 — schedule import creates exactly the flight instances the row implies.

S3: generated OAG rows over the harness world are imported with the real
OAGDatabase (CSV file -> CSVEntry.read -> add); the produced SQLite file is
read back with plain sqlite3 and compared with a stdlib-only expansion
(datetime + zoneinfo) and an independent geodesic for the distance rule.
"""

from __future__ import annotations

import math
import random
import shutil
import sqlite3
import tempfile
from datetime import date
from pathlib import Path

ID = 'C13'
LEVEL = 'exploration'
RULE = ('generated schedule rows (airport pairs over 52 airports incl. antimeridian/polar, '
        'range kinds {single day, 1-2 weeks, across spring/autumn DST, months, whole year, '
        'open-from, open-to, open-both, open ranges reaching into / lying wholly in the neighbouring year, calendar corners (1 Jan, 28/29 Feb, 31 Dec), same-zone flights across the clock change on the day of the change}, data years 2019 / 2021 / 2024, all weekday subsets, local times incl. 00:00/23:59/'
        'DST-gap times, arrival offsets P/blank/0/1/2, stated distance exact / within 50 km '
        '/ within 10 % / outside both / zero, each documented skip reason) imported through '
        'the real CSV reader and OAGDatabase.add; flights / schedules / airports rows read '
        'with sqlite3 and compared with a stdlib expansion; class = (range kind, offset, '
        'skip reason | accepted, distance margin, DST)')
ASSUMPTIONS = [
    'airport time zones come from timezonefinder (same call as the importer) - trusted',
    'for local times that are ambiguous or non-existent at a DST change either reading '
    '(fold 0 / fold 1) is accepted',
    'stated distances are generated >= 1 km / 0.15 % away from the two thresholds',
]
SHARD_TIMEOUT = {'quick': 900, 'thorough': 5400}
LEVEL_TEXT = ('Exploration: differential runtime check of the real importer against an '
              'independent stdlib expansion of each generated schedule row; every produced '
              'table row is accounted for (no missing, no extra instance).')
LEVEL_NOTE = 'Trusts sqlite3, zoneinfo, timezonefinder and the independent Vincenty geodesic.'
TECHNIQUE = 'differential oracle (stdlib schedule expansion + independent geodesic) on the produced database'

KF_DIST = 'C13-distance-check-latlon-swapped'


def plan(tier, seed):
    per, batches = (30, 8) if tier == 'quick' else (60, 120)
    return [{'seed': seed * 1000 + i, 'n': batches, 'rows': per} for i in range(16)]


def required(tier):
    cl = [f'range:{k}' for k in ('single', 'week', 'dst-spring', 'dst-autumn', 'months', 'year',
                                 'open-from', 'open-to', 'open-both',
                                 'open-to-from-previous-year', 'open-from-to-next-year',
                                 'open-to-from-next-year', 'open-from-to-previous-year',
                                 'dst-change-day-same-zone')]
    cl += ['file:dos-eof-marker-in-the-middle']
    cl += ['airport:patch-file', 'path:convert_oag_data']
    cl += [f'skip:{k}' for k in ('service', 'stops', 'non-operating', 'equipment',
                                 'unknown-airport', 'distance')]
    cl += ['accepted', 'offset:-1', 'offset:0', 'offset:1', 'offset:2', 'instances:dropped',
           'margin:within-50km', 'margin:within-10pct', 'margin:outside-both',
           'margin:zero-given']
    return {'classes': cl, 'counters': {'instances_compared': 2000}, 'evaluations': 300}


def swapped_model_accepts(o, d, given_km):
    """Defect model of the listed finding: GEOD.inv(lat, lon, lat, lon)."""
    from pyproj import Geod

    try:
        g = Geod(ellps='WGS84').inv(o['lat'], o['lon'], d['lat'], d['lon'])[2] / 1000.0
    except Exception:  # noqa: BLE001
        return None
    if g < 1.0:          # NaN compares False
        return False
    if given_km > 0:
        ad = abs(given_km - g)
        pct = 100 * ad / g
        if ad > 50.0 and pct > 10.0:
            return False
    return True


def one_batch(rng, hdir: Path, w: dict, rec, k, nrows, case0):
    from AEIC.missions.oag import CSVEntry, OAGDatabase
    from vlib import oaggen as og
    from vlib.storeops import Mismatch

    year = rng.choice([2019, 2021, 2024])
    # a yearly file may be several DOS-format extracts appended to each other: the end-of-file
    # marker record (a lone 0x1A) of the first extract then sits in the MIDDLE of the file
    eof_at = rng.randrange(1, nrows - 1) if nrows >= 4 and rng.random() < 0.35 else None
    rows = [og.gen_row(rng, w, year, i + 2 + (1 if eof_at is not None and i >= eof_at else 0))
            for i in range(nrows)]
    csvp = hdir / f'oag{k}.csv'
    dbp = hdir / f'oag{k}.sqlite'
    if eof_at is None:
        og.write_csv(csvp, rows)
    else:
        og.write_csv(csvp, rows[:eof_at] + [{'carrier': '\x1a'}] + rows[eof_at:])
        rec.cls('file:dos-eof-marker-in-the-middle')
    add_result = {}
    errors = {}
    with OAGDatabase(str(dbp), year) as db:
        for e in CSVEntry.read(str(csvp)):
            try:
                add_result[e.line] = db.add(e, commit=False)
                db.commit()
            except Exception as ex:  # noqa: BLE001  (no rollback: the importer's caches
                # would then point at rolled-back airport rows)
                errors[e.line] = f'{type(ex).__name__}: {str(ex)[:160]}'
        db.commit()
        db.index()
        warnings = {ln: str(wn.warn_type) for ln, wn in db.warnings.items()}
    con = sqlite3.connect(str(dbp))
    try:
        flights = con.execute(
            'SELECT f.id, f.carrier, f.flight_number, ao.iata_code, ad.iata_code, '
            'f.day_of_week_mask, f.departure_time, f.arrival_time, f.arrival_day_offset, '
            'f.service_type, f.aircraft_type, f.distance, f.seat_capacity, f.effective_from, '
            'f.effective_to, f.number_of_flights, f.od_pair FROM flights f '
            'JOIN airports ao ON ao.id = f.origin JOIN airports ad ON ad.id = f.destination '
            'ORDER BY f.id').fetchall()
        sched = {}
        for fid, dep, arr, day in con.execute(
                'SELECT flight_id, departure_timestamp, arrival_timestamp, day FROM schedules'):
            sched.setdefault(fid, []).append((dep, arr, day))
        airports = {r[0]: r[1:] for r in con.execute(
            'SELECT iata_code, latitude, longitude, country FROM airports')}
    finally:
        con.close()

    # flight rows appear in input order: match them to accepted rows in order
    fl_iter = iter(flights)
    nxt = next(fl_iter, None)
    for row in rows:
        h = row['_h']
        line = h['line']
        case = {**case0, 'k': k, 'line': line,
                'row': {c: row[c] for c in ('depapt', 'arrapt', 'deptim', 'arrtim', 'arrday',
                                            'days', 'efffrom', 'effto', 'distance', 'service',
                                            'stops', 'operating', 'genacft')},
                'range': h['range_kind'], 'true_km': h['true_km'], 'given_km': h['given_km']}
        rec.ev()
        mine = None
        if nxt is not None and nxt[1] == row['carrier'] and str(nxt[2]) == str(int(row['fltno'])) \
                and nxt[3] == h['dep'] and nxt[4] == h['arr'] \
                and nxt[6] == h['dep_hm'][0] * 60 + h['dep_hm'][1] \
                and nxt[12] == int(row['seats']):
            mine = nxt
        present = mine is not None
        if line in errors:
            if h['range_kind'].startswith('open-') and 'must be specified' in errors[line]:
                rec.finding('C13-open-ended-range-crashes',
                            'a row with an open-ended effective range makes the importer raise '
                            '(undefaulted dates passed to the schedule expansion)',
                            {'error': errors[line], **case}, case)
                if present:
                    nxt = next(fl_iter, None)
                continue
            raise Mismatch('importing a schedule row raised',
                           {'error': errors[line], 'expected_skip': h['skip'], **case})
        if h['skip'] in ('service', 'stops', 'non-operating', 'equipment', 'unknown-airport'):
            if present or add_result.get(line):
                raise Mismatch('a row that must be skipped was imported',
                               {'reason': h['skip'], **case})
            rec.cls(f'skip:{h["skip"]}')
            continue
        # ---- distance rule -------------------------------------------------------------
        should = h['plausible']
        if present != should:
            model = swapped_model_accepts(w[h['dep']], w[h['arr']], h['given_km'])
            what = ('a plausible row was dropped' if should else
                    'a row with an implausible distance was imported')
            if should and warnings.get(line) == 'unknown airport code':
                raise Mismatch('a row between known airports was dropped as "unknown airport"',
                               {'airports': [h['dep'], h['arr']],
                                'tags': [w[h['dep']]['tag'], w[h['arr']]['tag']], **case})
            if model is not None and model == present:
                rec.finding(KF_DIST,
                            'the distance plausibility rule computes the great-circle distance '
                            'with latitude and longitude swapped (NaN - never rejecting - when '
                            'an airport has |lon| > 90); pinned by test_oag_conversion',
                            {'what': what, 'margin': h['margin'], **case}, case)
                if present:
                    nxt = next(fl_iter, None)
                continue
            raise Mismatch(what + ' by the distance rule', {'margin': h['margin'], **case})
        if not should:
            rec.cls('skip:distance', f'margin:{h["margin"]}')
            if warnings.get(line) not in ('suspicious distance', 'zero distance'):
                raise Mismatch('row dropped by the distance rule without a warning',
                               {'warning': warnings.get(line), **case})
            continue
        # ---- accepted row: flight record -----------------------------------------------------
        nxt = next(fl_iter, None)
        fid = mine[0]
        exp_from = h['d0'].isoformat()
        exp_to = h['d1'].isoformat()
        mask = sum(1 << (dd - 1) for dd in h['days'])
        od = min(h['dep'], h['arr']) + max(h['dep'], h['arr'])
        checks = [('day_of_week_mask', mine[5], mask),
                  ('arrival_time', mine[7], h['arr_hm'][0] * 60 + h['arr_hm'][1]),
                  ('arrival_day_offset', mine[8], h['offset']),
                  ('service_type', mine[9], row['service']),
                  ('aircraft_type', mine[10], row['inpacft']),
                  ('effective_from', mine[13], exp_from), ('effective_to', mine[14], exp_to),
                  ('od_pair', mine[16], od)]
        for name, got, want in checks:
            if got != want:
                raise Mismatch(f'flight record field {name} differs from the schedule row',
                               {'got': got, 'expected': want, **case})
        if abs(mine[11] - h['given_km']) > 1e-6:
            raise Mismatch('flight record distance differs', {'got': mine[11], **case})
        for code in (h['dep'], h['arr']):
            a = airports.get(code)
            if a is None or abs(a[0] - w[code]['lat']) > 1e-9 or abs(a[1] - w[code]['lon']) > 1e-9 \
                    or a[2] != w[code]['country']:
                raise Mismatch('airport record differs from the airport data',
                               {'code': code, 'got': a, **case})
        # ---- instances ---------------------------------------------------------------------------
        kept, dropped, unsure, tz_o, tz_d = og.expected_instances(h, w)
        got = sorted(sched.get(fid, []))
        sure = [x for x in kept if len(x) == 3]
        n_lo, n_hi = len(sure), len(kept)
        det = {'tz_origin': tz_o, 'tz_destination': tz_d, 'expected_kept': [n_lo, n_hi],
               'expected_dropped': dropped, 'got_instances': len(got), **case}
        if not (n_lo <= len(got) <= n_hi):
            raise Mismatch('number of flight instances differs from dates x weekdays in the '
                           'effective range', det)
        if mine[15] != len(got):
            raise Mismatch('number_of_flights on the flight record differs from the '
                           'instances stored', {'number_of_flights': mine[15], **det})
        # match each stored instance to an expected date (greedy in time order)
        exp_sorted = sorted(kept, key=lambda x: min(x[0]))
        j = 0
        for dep, arr, day in got:
            while j < len(exp_sorted) and dep not in exp_sorted[j][0]:
                if len(exp_sorted[j]) == 3:
                    raise Mismatch('an expected flight instance is missing',
                                   {'date': str(exp_sorted[j][2]), **det})
                j += 1
            if j == len(exp_sorted):
                raise Mismatch('an unexpected flight instance was created',
                               {'departure_timestamp': dep, 'utc': str(og.ts_to_date(dep)),
                                **det})
            if arr not in exp_sorted[j][1]:
                raise Mismatch('arrival instant differs from local arrival time + day offset '
                               'converted to UTC',
                               {'date': str(exp_sorted[j][2]), 'got': arr,
                                'expected_any_of': sorted(exp_sorted[j][1]), **det})
            if arr < dep:
                raise Mismatch('stored instance arrives before it departs', det)
            if day != og.utc_day(dep):
                raise Mismatch('stored day number is not the UTC day of the departure',
                               {'day': day, 'expected': og.utc_day(dep), **det})
            j += 1
            rec.count('instances_compared')
        if any(len(x) == 3 for x in exp_sorted[j:]):
            raise Mismatch('an expected flight instance is missing (tail)', det)
        if dropped:
            rec.cls('instances:dropped')
            if warnings.get(line) != 'arrival time before departure time':
                raise Mismatch('instances were dropped without a time-misordering warning',
                               {'warning': warnings.get(line), **det})
        if 'patch' in (w[h['dep']]['tag'], w[h['arr']]['tag']):
            rec.cls('airport:patch-file')
        rec.cls('accepted', f'range:{h["range_kind"]}', f'offset:{h["offset"]}',
                f'margin:{h["margin"]}')
        if tz_o != tz_d:
            rec.cls('zones:differ')
    if nxt is not None:
        raise Mismatch('the database contains a flight record no input row accounts for',
                       {'flight': list(nxt), **case0, 'k': k})
    # ---- the command-line conversion path must produce the same database ---------------
    if not errors and k % 2 == 0:
        from AEIC.missions.oag import convert_oag_data
        db2 = hdir / f'oag{k}_cli.sqlite'
        convert_oag_data(str(csvp), year, str(db2), warnings_file=str(hdir / f'warn{k}.txt'))
        con = sqlite3.connect(str(db2))
        try:
            fl2 = con.execute(
                'SELECT f.carrier, f.flight_number, ao.iata_code, ad.iata_code, '
                'f.departure_time, f.number_of_flights, f.effective_from, f.effective_to '
                'FROM flights f JOIN airports ao ON ao.id = f.origin '
                'JOIN airports ad ON ad.id = f.destination ORDER BY f.id').fetchall()
            n_s2 = con.execute('SELECT COUNT(*), SUM(departure_timestamp), SUM(arrival_timestamp) '
                               'FROM schedules').fetchone()
        finally:
            con.close()
        fl1 = [(f[1], f[2], f[3], f[4], f[6], f[15], f[13], f[14]) for f in flights]
        s1 = (sum(len(v) for v in sched.values()),
              sum(d for v in sched.values() for d, _, _ in v) or None,
              sum(a for v in sched.values() for _, a, _ in v) or None)
        rec.ev()
        if fl1 != fl2 or tuple(n_s2) != s1:
            raise Mismatch('convert_oag_data produces a different database than adding the same '
                           'rows one by one', {'flights_direct': len(fl1), 'flights_cli': len(fl2),
                                               'schedules_direct': s1, 'schedules_cli': list(n_s2),
                                               **case0, 'k': k})
        rec.cls('path:convert_oag_data')
        db2.unlink(missing_ok=True)
    dbp.unlink(missing_ok=True)
    csvp.unlink(missing_ok=True)
    return rows[0]


def run_shard(spec, rec):
    from AEIC.config import Config
    from vlib import world
    from vlib.storeops import Mismatch

    hdir = Path(tempfile.mkdtemp(prefix='c13-'))
    try:
        w = world.write_world(hdir)
        world.load_config(hdir)
        case0 = {'spec': {kk: spec[kk] for kk in ('seed', 'n', 'rows')}}
        ks = [spec['only']] if 'only' in spec else range(spec['n'])
        for k in ks:
            rng = random.Random(f"{spec['seed']}-{k}")
            try:
                r0 = one_batch(rng, hdir, w, rec, k, spec['rows'], case0)
                if k == 0:
                    rec.sample({c: r0[c] for c in ('depapt', 'arrapt', 'deptim', 'arrtim',
                                                   'arrday', 'days', 'efffrom', 'effto',
                                                   'distance')})
            except Mismatch as m:
                rec.violation(m.mechanism, m.detail, {**case0, 'k': k})
    finally:
        Config.reset()
        shutil.rmtree(hdir, ignore_errors=True)
