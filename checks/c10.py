"""C10 — rejected or interrupted store operations lose and corrupt nothing.

Fault enumeration (S4):
 A. every kind of invalid trajectory at every position of an add sequence
    (position 0 with file creation pending, middle, first add of an append
    session with an empty cache, later in an append session);
 B. a refused merge for every validation rule, followed by a corrected retry
    with the same output path;
 C. an injected failure before / after every file-system step of a merge
    (audit hook on os.mkdir / os.rename / open-for-write, wrapped nc4.Dataset and
    json.dump), at every executed source line of merge() and its helpers
    (sys.monitoring LINE failpoints), and a process kill (fork + os._exit) at
    every file-system step.
"""

from __future__ import annotations

import json
import os
import random
import shutil
import tempfile
from pathlib import Path

ID = 'C10'
LEVEL = 'fault_enumeration'
RULE = ('fault enumeration on the real store: (A) invalid trajectories {missing required '
        'value, extra field set, missing field set, identified into unidentified, '
        'unidentified into identified} injected at positions {0 with file creation '
        'pending, middle, first add of append session, later in append session}; after '
        'every rejection len/every index/next index/ids and finally the reopened file are '
        'compared with the list of successful additions; (B) merge refused by each '
        'validation rule, inputs re-read, corrected retry to the same output path; (C) '
        'failpoint before/after every file-system step, nc4.Dataset call, json.dump and at '
        'every executed line of merge/_create_merged_store_index/_check_merge_arguments, '
        'plus process kill at every file-system step; after each, every trajectory must '
        'be readable from its original path or <merged>/<name>, a directory with '
        'metadata.json that opens must be the full concatenation, and after moving files '
        'back the merge must succeed; class = (part, fault kind, position/step)')
ASSUMPTIONS = [
    'crash model: exception or process exit at a step boundary; torn writes inside HDF5 '
    'are out of reach',
    'an invalid addition that is silently ACCEPTED (instead of rejected) is reported too, '
    'because the accepted item cannot read back equal',
    '"undoing the partial moves" = moving files found in the merged directory back to '
    'their original paths and removing the directory',
]
CRASH_IS_VIOLATION = True
SHARD_TIMEOUT = {'quick': 900, 'thorough': 7200}
LEVEL_TEXT = ('Fault enumeration by runtime injection: every enumerated failpoint is '
              'calibrated from a fault-free run of the real merge, fired once, and the '
              'post-state is checked against the list of what was stored; invalid '
              'additions are injected at every structurally different position. Every '
              'enumerated failpoint must fire, otherwise the run is inconclusive.')
LEVEL_NOTE = ('Crash model is exception / process exit between Python-level steps; HDF5 '
              'internal atomicity trusted. Line failpoints are statement-start lines.')
TECHNIQUE = 'fault injection (audit hook, sys.monitoring LINE failpoints, fork+kill) with post-state model comparison'


FAMILIES = ['fs', 'dataset-before', 'dataset-after', 'json+kill', 'lines0', 'lines1', 'lines2']


def plan(tier, seed):
    specs = []
    if tier == 'quick':
        for i in range(3):
            specs.append({'part': 'A', 'seed': seed * 1000 + i, 'n': 7})
        specs.append({'part': 'B', 'seed': seed * 1000 + 50, 'n': 2})
        for shape in range(2):
            for fam in ('fs', 'dataset-before', 'dataset-after', 'json+kill', 'lines0',
                        'lines1'):
                specs.append({'part': 'C', 'seed': seed * 1000 + 80 + shape, 'n': 1,
                              'family': fam, 'line_budget': 70})
    else:
        for i in range(6):
            specs.append({'part': 'A', 'seed': seed * 1000 + i, 'n': 120})
        for i in range(2):
            specs.append({'part': 'B', 'seed': seed * 1000 + 50 + i, 'n': 30})
        for shape in range(12):
            for fam in FAMILIES:
                specs.append({'part': 'C', 'seed': seed * 1000 + 80 + shape, 'n': 1,
                              'family': fam, 'line_budget': None})
    return specs


def required(tier):
    kinds = ['missing-required', 'extra-field-set', 'missing-field-set',
             'identified-into-unidentified', 'unidentified-into-identified',
             'same-names-other-definitions', 'species-outside-file-dimension']
    cl = ['A:missing-required@0-file-creation-pending',
          'A:in-memory-store-at-capacity@rejected-nothing-lost',
          'A:larger-than-cache@rejected-nothing-lost',
          'A:rejected-first-add-of-other-identification-kind']
    for kd in kinds:
        cl += [f'A:{kd}@middle', f'A:{kd}@append-first', f'A:{kd}@append-later']
    cl += [f'B:{r}' for r in ('list-and-pattern', 'pattern-without-range', 'missing-input',
                              'not-nc-suffix', 'output-suffix', 'output-exists',
                              'differing-field-sets', 'mixed-identification')]
    cl += ['C:fs-before:os.mkdir', 'C:fs-before:os.rename', 'C:fs-before:open',
           'C:fs-after:os.mkdir', 'C:fs-after:os.rename', 'C:dataset-before',
           'C:dataset-after', 'C:json.dump-before', 'C:json.dump-partial', 'C:line',
           'C:kill:os.mkdir', 'C:kill:os.rename', 'C:kill:open',
           'C:second-call:same arguments:refused']
    return {'classes': cl, 'counters': {'failpoints_fired': 100, 'post_state_checks': 100},
            'evaluations': 300}


def finalize(agg):
    c = agg['counters']
    if c.get('failpoints_defined', 0) != c.get('failpoints_fired', 0):
        agg['inconclusive'].append(
            f"failpoints defined={c.get('failpoints_defined', 0)} "
            f"fired={c.get('failpoints_fired', 0)}")


def evidence_extra(agg):
    c = agg['counters']
    return {'failpoints_defined': c.get('failpoints_defined', 0),
            'failpoints_fired': c.get('failpoints_fired', 0)}


# ---------------------------------------------------------------------------
# part A


def verify_store(st, model, ids, rec, M, ctx):
    from vlib import trajgen

    rec.count('post_state_checks')
    rec.ev()
    if len(st) != len(model):
        raise M('store length changed by a rejected addition',
                {'len': len(st), 'expected': len(model), **ctx})
    for i, snap in enumerate(model):
        try:
            got = st[i]
        except Exception as e:  # noqa: BLE001
            raise M('index unreadable after a rejected addition',
                    {'index': i, 'error': f'{type(e).__name__}: {e}', **ctx})
        if trajgen.fingerprint(got) != trajgen.fingerprint(snap):
            raise M('different trajectory on an index after a rejected addition',
                    {'index': i, 'got': trajgen.fingerprint(got),
                     'expected': trajgen.fingerprint(snap), **ctx})
        df = trajgen.compare(snap, got)
        if df:
            raise M('contents changed after a rejected addition',
                    {'index': i, 'diffs': df[:4], **ctx})
    try:
        ghost = st[len(model)]
        raise M('a rejected addition left a ghost item behind the end',
                {'index': len(model), 'ghost': trajgen.fingerprint(ghost), **ctx})
    except IndexError:
        pass
    if ids is not None:
        for fid, pos in ids.items():
            got = st.get_flight(fid)
            if got is None or trajgen.fingerprint(got) != trajgen.fingerprint(model[pos]):
                raise M('id lookup wrong after a rejected addition',
                        {'flight_id': fid, **ctx})


def add_faults(rng, workdir, rec, k):
    import numpy as np

    import vlib.fieldsets as vf
    from AEIC.trajectories import TrajectoryStore
    from vlib import trajgen
    from vlib.storeops import Mismatch as M

    nprng = np.random.default_rng(rng.getrandbits(32))
    identified = rng.random() < 0.5
    with_other = rng.random() < 0.5
    with_species = (not with_other) and rng.random() < 0.5
    sp_plan = None
    if with_species:
        from AEIC.types import Species as _S
        base_sp = sorted(rng.sample([_S.CO2, _S.H2O, _S.NOx, _S.CO, _S.PMvol], 3))
        sp_plan = {n: list(base_sp) for n, md in vf.VX_SPECIES.fields.items()}
        outside = [x for x in _S if x not in base_sp]
    cache_items = rng.choice([1, 2, None, None])
    npts = rng.randint(2, 6)
    path = workdir / f'a{rng.getrandbits(40):x}.nc'
    uid = [k * 1000]
    used = set()
    model: list = []
    ids = {} if identified else None
    log: list = []

    def cache_mb():
        if cache_items is None:
            return 64
        t = mk_good()
        return (cache_items * t.nbytes + t.nbytes // 2) / (1024 * 1024)

    def new_id():
        while True:
            f = rng.randint(-99, 999)
            if f not in used:
                used.add(f)
                return f

    def mk(fid, other, plan=None):
        uid[0] += 1
        t = trajgen.make_base_traj(nprng, npts, uid[0], flight_id=fid)
        if other:
            t.add_fields(vf.VX_OTHER)
            vf.fill(t, 'vx_other', rng)
        if with_species:
            t.add_fields(vf.VX_SPECIES)
            vf.fill(t, 'vx_species', rng, plan=plan or sp_plan, unset_prob=0.0)
        return t

    def mk_good():
        return mk(new_id() if identified else None, with_other)

    def mk_bad(kind):
        if kind == 'missing-required':
            t = mk_good()
            if not model and flip_first[0]:
                # nothing stored yet: the rejected trajectory may just as well be of the
                # other identification kind - the store must not remember anything of it
                t = mk(None if identified else new_id(), with_other)
                rec.cls('A:rejected-first-add-of-other-identification-kind')
            f = rng.choice(['starting_mass', 'total_fuel_mass'] + (['o_s'] if with_other else []))
            t._data[f] = None           # == the field was never set
            return t, f
        if kind == 'species-outside-file-dimension':
            # a species the file's species dimension (fixed by the first trajectory) lacks
            field = rng.choice(sorted(sp_plan))
            plan = {n: list(v) for n, v in sp_plan.items()}
            plan[field] = plan[field] + [rng.choice(outside)]
            return mk(new_id() if identified else None, with_other, plan), field
        if kind == 'same-names-other-definitions':
            uid[0] += 1
            t = trajgen.make_base_traj(nprng, npts, uid[0],
                                       flight_id=new_id() if identified else None)
            t.add_fields(vf.VX_OTHER2)
            vf.fill(t, 'vx_other2', rng)
            return t, 'vx_other2'
        if kind == 'extra-field-set':
            return mk(new_id() if identified else None, True), 'vx_other'
        if kind == 'missing-field-set':
            return mk(new_id() if identified else None, False), 'vx_other'
        if kind == 'identified-into-unidentified':
            return mk(new_id(), with_other), None
        if kind == 'unidentified-into-identified':
            return mk(None, with_other), None
        raise AssertionError(kind)

    flip_first = [rng.random() < 0.5]

    def applicable():
        ks = ['missing-required']
        ks.append('missing-field-set' if with_other else 'extra-field-set')
        if with_other:
            ks.append('same-names-other-definitions')
        if with_species and model:
            ks.append('species-outside-file-dimension')
        ks.append('unidentified-into-identified' if identified else
                  'identified-into-unidentified')
        return ks

    def good(st):
        t = mk_good()
        snap = trajgen.snapshot(t)
        log.append(('add', trajgen.fingerprint(snap)))
        try:
            idx = st.add(t)
        except Exception as e:  # noqa: BLE001
            raise M('valid addition refused after a rejected one',
                    {'error': f'{type(e).__name__}: {e}', 'log': log[-12:],
                     'identified': identified, 'with_other': with_other})
        rec.ev()
        if idx != len(model):
            raise M('next addition after a rejected one got the wrong index',
                    {'returned': idx, 'expected': len(model), 'log': log[-12:]})
        if ids is not None:
            ids[snap['flight_id']] = len(model)
        model.append(snap)

    def bad(st, kind, pos):
        t, what = mk_bad(kind)
        log.append(('bad-add', kind, pos, what))
        ctx = {'kind': kind, 'position': pos, 'what': what, 'log': log[-12:],
               'identified': identified, 'with_other': with_other,
               'cache_items': cache_items}
        rec.count('invalid_adds_injected')
        try:
            st.add(t)
        except Exception as e:  # noqa: BLE001
            ctx['rejection'] = f'{type(e).__name__}: {str(e)[:120]}'
        else:
            raise M('invalid addition was accepted instead of rejected', ctx)
        verify_store(st, model, ids, rec, M, ctx)
        rec.cls(f'A:{kind}@{pos}')

    def close(st, ctx):
        try:
            st.close()
        except Exception as e:  # noqa: BLE001
            raise M('close() raised after a rejected addition',
                    {'error': f'{type(e).__name__}: {e}', 'log': log[-12:], **ctx})

    info = {'identified': identified, 'with_other': with_other, 'with_species': with_species,
            'cache_items': cache_items}
    # ---- create session ------------------------------------------------------
    st = TrajectoryStore.create(base_file=path, cache_size_mb=cache_mb())
    try:
        if rng.random() < 0.6:
            bad(st, 'missing-required', '0-file-creation-pending')
            if rng.random() < 0.5:
                bad(st, 'missing-required', '0-file-creation-pending')
        for _ in range(rng.randint(1, 4)):
            good(st)
        for kind in rng.sample(applicable(), rng.randint(1, 3)):
            bad(st, kind, 'middle')
            if rng.random() < 0.7:
                good(st)
        if not model:
            good(st)
        verify_store(st, model, ids, rec, M, {'log': log[-12:], **info})
    except M:
        try:
            st.close()
        except Exception:  # noqa: BLE001
            pass
        raise
    close(st, info)
    # ---- append session(s) -----------------------------------------------------
    for kind in rng.sample(applicable(), len(applicable())):
        st = TrajectoryStore.append(base_file=path, cache_size_mb=cache_mb())
        try:
            if len(st) != len(model):
                raise M('reopened store shows a different number of items than were '
                        'successfully added', {'len': len(st), 'expected': len(model),
                                               'log': log[-14:], **info})
            bad(st, kind, 'append-first')           # cache is empty here
            good(st)
            k2 = rng.choice(applicable())
            bad(st, k2, 'append-later')
            if rng.random() < 0.5:
                good(st)
        except M:
            try:
                st.close()
            except Exception:  # noqa: BLE001
                pass
            raise
        close(st, info)
    # ---- final reopen ------------------------------------------------------------
    st = TrajectoryStore.open(base_file=path)
    try:
        verify_store(st, model, ids, rec, M, {'phase': 'reopened read-only',
                                              'log': log[-14:], **info})
        rec.cls('A:reopen-shows-only-successful-additions')
    finally:
        st.close()
    path.unlink(missing_ok=True)
    return {'log': log[:30], **info}


# ---------------------------------------------------------------------------
# shared: building merge inputs


def build_inputs(rng, d: Path, nin: int, identified: bool, uid0: int, odd=None):
    """-> list of (path, [snapshots]).  ``odd`` = (index, 'fieldset'|'ids') makes one
    input differ."""
    import numpy as np

    import vlib.fieldsets as vf
    from AEIC.trajectories import TrajectoryStore
    from vlib import trajgen

    nprng = np.random.default_rng(rng.getrandbits(32))
    out = []
    uid = uid0
    for j in range(nin):
        p = d / f'in{j}.nc'
        st = TrajectoryStore.create(base_file=p)
        snaps = []
        for _ in range(rng.randint(1, 4)):
            uid += 1
            fid = uid if identified else None
            if odd and odd[0] == j and odd[1] == 'ids':
                fid = None if identified else uid
            t = trajgen.make_base_traj(nprng, rng.randint(2, 5), uid, flight_id=fid)
            if odd and odd[0] == j and odd[1] == 'fieldset':
                t.add_fields(vf.VX_OTHER)
                vf.fill(t, 'vx_other', rng)
            st.add(t)
            snaps.append(trajgen.snapshot(t))
        st.close()
        out.append((p, snaps))
    return out


def check_file(path: Path, snaps, M, ctx):
    from AEIC.trajectories import TrajectoryStore
    from vlib import trajgen

    try:
        st = TrajectoryStore.open(base_file=path)
    except Exception as e:  # noqa: BLE001
        raise M('input store unreadable after a refused/interrupted merge',
                {'file': str(path.name), 'error': f'{type(e).__name__}: {e}', **ctx})
    try:
        if len(st) != len(snaps):
            raise M('input store length changed', {'file': path.name, **ctx})
        for i, s in enumerate(snaps):
            df = trajgen.compare(s, st[i])
            if df:
                raise M('input store contents changed', {'file': path.name, 'index': i,
                                                         'diffs': df[:3], **ctx})
    finally:
        st.close()


def check_merged(out: Path, inputs, identified, M, ctx):
    from AEIC.trajectories import TrajectoryStore
    from vlib import trajgen

    model = [s for _, snaps in inputs for s in snaps]
    try:
        st = TrajectoryStore.open(base_file=out)
    except Exception as e:  # noqa: BLE001
        raise M('merged directory announces completeness but cannot be opened',
                {'error': f'{type(e).__name__}: {str(e)[:200]}', **ctx})
    try:
        if len(st) != len(model):
            raise M('merged directory announces completeness but lacks parts',
                    {'len': len(st), 'expected': len(model), **ctx})
        for i, s in enumerate(model):
            df = trajgen.compare(s, st[i])
            if df:
                raise M('merged directory content differs from concatenation',
                        {'index': i, 'diffs': df[:3], **ctx})
        if identified:
            for i, s in enumerate(model):
                try:
                    got = st.get_flight(s['flight_id'])
                except Exception as e:  # noqa: BLE001
                    raise M('merged directory announces completeness but id lookup fails',
                            {'error': f'{type(e).__name__}: {str(e)[:200]}', **ctx})
                if got is None or trajgen.fingerprint(got) != trajgen.fingerprint(s):
                    raise M('merged directory id lookup broken',
                            {'flight_id': s['flight_id'], **ctx})
    finally:
        st.close()


# ---------------------------------------------------------------------------
# part B


def refused_merges(rng, workdir, rec, k):
    from AEIC.trajectories import TrajectoryStore
    from vlib.storeops import Mismatch as M

    rules = ['list-and-pattern', 'pattern-without-range', 'missing-input', 'not-nc-suffix',
             'output-suffix', 'output-exists', 'differing-field-sets',
             'mixed-identification']
    for rule in rules:
        d = workdir / f'b{rng.getrandbits(40):x}'
        d.mkdir()
        nin = rng.randint(2, 4)
        identified = rng.random() < 0.5
        odd = None
        if rule == 'differing-field-sets':
            odd = (rng.randrange(nin), 'fieldset')
        if rule == 'mixed-identification':
            odd = (rng.randrange(nin), 'ids')
        inputs = build_inputs(rng, d, nin, identified, k * 10000 + rules.index(rule) * 100,
                              odd=odd)
        paths = [p for p, _ in inputs]
        out = d / 'merged.aeic-store'
        kwargs = dict(output_store=out, input_stores=list(paths))
        extra_file = None
        if rule == 'list-and-pattern':
            kwargs['input_stores_pattern'] = str(d / 'in{index}.nc')
            kwargs['input_stores_index_range'] = (0, nin - 1)
        elif rule == 'pattern-without-range':
            kwargs = dict(output_store=out, input_stores_pattern=str(d / 'in{index}.nc'))
        elif rule == 'missing-input':
            kwargs['input_stores'] = list(paths) + [d / 'nope.nc']
        elif rule == 'not-nc-suffix':
            extra_file = d / 'in_extra.dat'
            shutil.copy(paths[0], extra_file)
            kwargs['input_stores'] = list(paths) + [extra_file]
        elif rule == 'output-suffix':
            kwargs['output_store'] = d / 'merged.store'
        elif rule == 'output-exists':
            out.mkdir()
        ctx = {'rule': rule, 'inputs': nin, 'identified': identified, 'odd': odd}
        rec.ev()
        rec.count('refusals_injected')
        try:
            TrajectoryStore.merge(**kwargs)
        except Exception as e:  # noqa: BLE001
            ctx['refusal'] = f'{type(e).__name__}: {str(e)[:100]}'
        else:
            raise M('invalid merge was accepted', ctx)
        # every input still readable at its original path, unchanged
        rec.count('post_state_checks')
        for p, snaps in inputs:
            if not p.exists():
                raise M('refused merge moved or removed an input store',
                        {'file': p.name, **ctx})
            check_file(p, snaps, M, ctx)
        # corrected retry with the SAME output path
        good_inputs = inputs
        if odd:
            good_inputs = [x for j, x in enumerate(inputs) if j != odd[0]]
            if len(good_inputs) and odd[1] == 'ids':
                pass
        if rule == 'output-exists':
            out.rmdir()
        try:
            TrajectoryStore.merge(output_store=out, input_stores=[p for p, _ in good_inputs])
        except Exception as e:  # noqa: BLE001
            raise M('corrected retry of a refused merge failed',
                    {'error': f'{type(e).__name__}: {str(e)[:200]}',
                     'output_dir_left_behind': out.exists(), **ctx})
        ident_retry = identified
        check_merged(out, [(out / p.name, s) for p, s in good_inputs], ident_retry, M, ctx)
        rec.cls(f'B:{rule}')
        shutil.rmtree(d, ignore_errors=True)
    return {'rules': rules}


# ---------------------------------------------------------------------------
# part C


def interrupted_merges(rng, workdir, rec, k, family, line_budget):
    import AEIC.trajectories.store as store_mod
    from AEIC.trajectories import TrajectoryStore
    from vlib import failpoints as fp
    from vlib.storeops import Mismatch as M

    nin = rng.choice([1, 2, 2, 3, 4])
    identified = rng.random() < 0.6
    pristine = workdir / f'p{rng.getrandbits(40):x}'
    pristine.mkdir()
    inputs0 = build_inputs(rng, pristine, nin, identified, k * 10000)
    shape = {'inputs': nin, 'identified': identified,
             'sizes': [len(s) for _, s in inputs0]}

    def fresh():
        d = workdir / f'c{rng.getrandbits(40):x}'
        d.mkdir()
        ins = []
        for p, snaps in inputs0:
            q = d / p.name
            shutil.copy(p, q)
            ins.append((q, snaps))
        return d, ins

    def do_merge(d, ins):
        TrajectoryStore.merge(d / 'm.aeic-store', input_stores=[p for p, _ in ins],
                              title='t')

    def post_check(d, ins, ctx):
        rec.count('post_state_checks')
        rec.ev()
        out = d / 'm.aeic-store'
        located = []
        for p, snaps in ins:
            a, b = p.exists(), (out / p.name).exists()
            if a and b:
                raise M('input store exists at both original and merged location', ctx)
            if not a and not b:
                raise M('a trajectory file is lost after an interrupted merge',
                        {'file': p.name, **ctx})
            loc = p if a else out / p.name
            check_file(loc, snaps, M, ctx)
            located.append((loc, snaps))
        meta = out / 'metadata.json'
        if meta.exists():
            try:
                json.loads(meta.read_text())
                parses = True
            except ValueError:
                parses = False
            if parses:
                # the directory announces itself as complete
                check_merged(out, [(out / p.name, s) for p, s in ins], identified, M,
                             {'phase': 'metadata.json present', **ctx})
                rec.count('complete_after_fault')
                return
            else:
                try:
                    TrajectoryStore.open(base_file=out).close()
                    raise M('merged directory with unparsable metadata opened', ctx)
                except M:
                    raise
                except Exception:  # noqa: BLE001
                    pass
        # what a user may try first: simply call merge again - with the same arguments, or
        # with the inputs that are still in place.  Refused or not, nothing may get lost.
        moved = [p for (loc, _), (p, _) in zip(located, ins) if loc != p]
        still = [(p, s_) for (loc, s_), (p, _) in zip(located, ins) if loc == p]
        completed = False
        if moved:
            for label, subset in (('same arguments', ins), ('inputs still in place', still)):
                if not subset:
                    continue
                try:
                    do_merge(d, subset)
                    outcome = 'accepted'
                except Exception as e:  # noqa: BLE001
                    outcome = f'refused ({type(e).__name__})'
                rec.count('naive_retries_after_interruption')
                located = []
                for p, snaps in ins:
                    a, b = p.exists(), (out / p.name).exists()
                    if not a and not b:
                        raise M('a trajectory file is lost when merge is simply called again '
                                'after an interrupted merge',
                                {'file': p.name, 'second_call': label, 'second_call_outcome':
                                 outcome, **ctx})
                    loc = p if a else out / p.name
                    check_file(loc, snaps, M, {'second_call': label, **ctx})
                    located.append((loc, snaps))
                rec.cls(f'C:second-call:{label}:{outcome.split(" ")[0]}')
                if outcome == 'accepted':
                    completed = True
                    break
        if completed and (out / 'metadata.json').exists():
            # a second call completed a store: it must contain what it announces
            try:
                st2 = TrajectoryStore.open(base_file=out)
                n2 = len(st2)
                st2.close()
            except Exception as e:  # noqa: BLE001
                raise M('merged directory completed by a second call cannot be opened',
                        {'error': f'{type(e).__name__}: {str(e)[:160]}', **ctx})
            rec.cls('C:second-call:completed-a-store')
            shutil.rmtree(out)          # start over for the clean retry below
            ins = [(p, s_) for p, s_ in ins if p.exists()]
            located = [(p, s_) for p, s_ in ins]
            if not ins:
                return
        # undo the partial moves, then the merge must be repeatable
        for (loc, _), (p, _) in zip(located, ins):
            if loc != p:
                os.rename(loc, p)
        if out.exists():
            shutil.rmtree(out)
        try:
            do_merge(d, ins)
        except Exception as e:  # noqa: BLE001
            raise M('merge cannot be repeated after undoing an interrupted one',
                    {'error': f'{type(e).__name__}: {str(e)[:200]}', **ctx})
        check_merged(out, [(out / p.name, s) for p, s in ins], identified, M,
                     {'phase': 'retry', **ctx})

    def run_with(ctxmgr_factory, label, ctx):
        """one fault run; returns True if the failpoint fired"""
        d, ins = fresh()
        fired = False
        try:
            with ctxmgr_factory() as st:
                try:
                    do_merge(d, ins)
                except fp.InjectedFault:
                    pass
                except Exception as e:  # noqa: BLE001  (fault surfaced as another error)
                    ctx = {'surfaced_as': f'{type(e).__name__}: {str(e)[:120]}', **ctx}
                fired = bool(st['fired'] if isinstance(st, dict) else st.fired)
            post_check(d, ins, {'fault': label, **ctx, **shape})
        finally:
            shutil.rmtree(d, ignore_errors=True)
        return fired

    # ---- calibration: fault-free run -------------------------------------------
    d, ins = fresh()
    codes = [TrajectoryStore.merge.__code__,
             TrajectoryStore._create_merged_store_index.__code__,
             TrajectoryStore._check_merge_arguments.__code__]
    ds_counter = fp.CallFault(store_mod.nc4.Dataset, None, 'before')
    jd_counter = fp.CallFault(store_mod.json.dump, None, 'before')

    class _NS:       # stand-ins for the modules so that only the store sees the wrappers
        pass

    real_nc4, real_json = store_mod.nc4, store_mod.json

    def patched(dataset=None, dump=None):
        from contextlib import contextmanager

        @contextmanager
        def cm():
            ns_nc4, ns_json = _NS(), _NS()
            ns_nc4.__dict__.update(real_nc4.__dict__)
            ns_json.__dict__.update(real_json.__dict__)
            if dataset is not None:
                ns_nc4.Dataset = dataset
            if dump is not None:
                ns_json.dump = dump
            store_mod.nc4, store_mod.json = ns_nc4, ns_json
            try:
                yield dataset if dataset is not None else dump
            finally:
                store_mod.nc4, store_mod.json = real_nc4, real_json
        return cm

    with fp.fs_watch(str(workdir)) as fsst, fp.line_failpoint(codes, None) as lst, \
            patched(dataset=ds_counter, dump=jd_counter)():
        do_merge(d, ins)
    fs_events = list(fsst['events'])
    n_lines = len(lst['events'])
    n_ds, n_jd = ds_counter.calls, jd_counter.calls
    check_merged(d / 'm.aeic-store', [(d / 'm.aeic-store' / p.name, s) for p, s in ins],
                 identified, M, {'phase': 'calibration (fault-free)', **shape})
    shutil.rmtree(d, ignore_errors=True)
    rec.sample({'shape': shape, 'fs_steps': fs_events, 'dataset_calls': n_ds,
                'json_dump_calls': n_jd, 'line_events': n_lines})
    if not fs_events or n_ds == 0 or n_jd == 0 or n_lines < 10:
        rec.inconc(f'calibration saw too little: fs={fs_events} ds={n_ds} jd={n_jd} '
                   f'lines={n_lines}')
        return shape

    def defined():
        rec.count('failpoints_defined')

    def fired_or_inconc(fired, label):
        if fired:
            rec.count('failpoints_fired')
        else:
            rec.inconc(f'failpoint never fired: {label}')

    def fam(*names):
        return family == 'all' or family in names

    # ---- before every file-system step -----------------------------------------
    for i, (evname, base) in enumerate(fs_events if fam('fs') else []):
        defined()
        label = f'before {evname}#{i}({base})'
        f = run_with(lambda i=i: _fs(fp, workdir, i), label, {'step': i})
        fired_or_inconc(f, label)
        rec.cls(f'C:fs-before:{evname}')
    # ---- after mkdir / rename take effect --------------------------------------------
    for name in (('mkdir', 'rename') if fam('fs') else ()):
        real = getattr(os, name)
        ncalls = sum(1 for e, _ in fs_events if e == f'os.{name}')
        for i in range(ncalls):
            defined()
            wrapper = fp.CallFault(real, i, 'after')

            def cm(wrapper=wrapper, name=name, real=real):
                from contextlib import contextmanager

                @contextmanager
                def c():
                    setattr(os, name, wrapper)
                    try:
                        yield wrapper
                    finally:
                        setattr(os, name, real)
                return c()
            label = f'after os.{name}#{i}'
            f = run_with(cm, label, {'step': i})
            fired_or_inconc(f, label)
            rec.cls(f'C:fs-after:os.{name}')
    # ---- nc4.Dataset calls -----------------------------------------------------------
    for when in ('before', 'after'):
        for i in (range(n_ds) if fam(f'dataset-{when}') else ()):
            defined()
            w = fp.CallFault(real_nc4.Dataset, i, when)
            label = f'{when} nc4.Dataset#{i}'
            f = run_with(patched(dataset=w), label, {'step': i})
            fired_or_inconc(f, label)
            rec.cls(f'C:dataset-{when}')
    # ---- json.dump ---------------------------------------------------------------------
    for when in (('before', 'partial') if fam('json+kill') else ()):
        defined()

        def half(obj, fh, *a, **k2):
            s = real_json.dumps(obj)
            fh.write(s[: len(s) // 2])
            fh.flush()
        w = fp.CallFault(real_json.dump, 0, when, partial=half)
        label = f'{when} json.dump'
        f = run_with(patched(dump=w), label, {})
        fired_or_inconc(f, label)
        rec.cls(f'C:json.dump-{when}')
    # ---- every executed line ------------------------------------------------------------
    all_lines = list(range(n_lines))
    if family == 'all':
        line_steps = all_lines
    elif family.startswith('lines'):
        j = int(family[5:])
        line_steps = all_lines[j::3]
        if line_budget is not None and len(line_steps) > line_budget:
            line_steps = sorted(rng.sample(line_steps, line_budget))
    else:
        line_steps = []
    for i in line_steps:
        defined()
        label = f'line event #{i}'
        f = run_with(lambda i=i: fp.line_failpoint(codes, i), label, {'step': i})
        fired_or_inconc(f, label)
        rec.cls('C:line')
    # ---- process kill at every file-system step -----------------------------------------
    for i, (evname, base) in enumerate(fs_events if fam('json+kill') else []):
        defined()
        d, ins = fresh()
        try:
            pid = os.fork()
            if pid == 0:
                try:
                    with fp.fs_watch(str(d), fail_at=i, action='kill'):
                        do_merge(d, ins)
                finally:
                    os._exit(0)
            _, status = os.waitpid(pid, 0)
            code = os.waitstatus_to_exitcode(status)
            if code == 77:
                rec.count('failpoints_fired')
            else:
                rec.inconc(f'kill failpoint #{i} did not fire (child exit {code})')
            post_check(d, ins, {'fault': f'process killed before {evname}#{i}({base})',
                                **shape})
            rec.cls(f'C:kill:{evname}')
        finally:
            shutil.rmtree(d, ignore_errors=True)
    shutil.rmtree(pristine, ignore_errors=True)
    return shape


def _fs(fp, workdir, i):
    return fp.fs_watch(str(workdir), fail_at=i)


def memory_full(rng, workdir, rec, k):
    """An in-memory store filled exactly to the capacity of its cache: the next addition (and
    one larger than the whole cache) is rejected and nothing already stored may be touched;
    the store can then be saved and shows exactly the successful additions."""
    from vlib.storeops import StoreHistory

    n = rng.randint(1, 4)
    h = StoreHistory(rng, workdir, rec, identified=rng.random() < 0.5, cache_items=n,
                     in_memory=True, uid_base=k * 1000 + 300)
    try:
        h.open_session('create_mem')
        for _ in range(n):
            h.op_add()
        for _ in range(rng.randint(1, 3)):
            before = rec.counters.get('mem_refusals', 0)
            h.op_add()                    # refused (would evict); model unchanged
            if rec.counters.get('mem_refusals', 0) == before:
                h._fail('an in-memory store at capacity accepted a further addition')
            h.check_len()
            h.check_all_reads()
            if h.identified:
                for _ in range(2):
                    h.op_lookup(True)
        if rng.random() < 0.5:
            h.op_add_oversize()
            h.check_all_reads()
        h.op_save()
        h.check_all_reads()
        h.close('close')
        h.open_session('read')
        h.check_len()
        h.check_all_reads()
        h.op_iter()
        h.close('close')
        rec.cls('A:in-memory-store-at-capacity@rejected-nothing-lost')
    finally:
        h.cleanup()


def cache_refusals(rng, workdir, rec, k):
    """Additions that pass every explicit validation but are refused by the trajectory cache
    (larger than the whole cache), in a file-backed store: index, length and contents stay,
    the next addition gets the next index, and a reopen shows only the successful ones."""
    from vlib.storeops import StoreHistory

    h = StoreHistory(rng, workdir, rec, identified=rng.random() < 0.5,
                     cache_items=rng.choice([1, 2, 3]), uid_base=k * 1000 + 500)
    try:
        h.open_session('create_file')
        for _ in range(rng.randint(1, 3)):
            h.op_add()
        before = rec.counters.get('oversize_refusals', 0)
        for _ in range(rng.randint(1, 2)):
            h.op_add_oversize()
            h.check_all_reads()
            h.op_add()
        h.check_all_reads()
        h.close('close')
        h.open_session('append')
        h.check_len()
        h.op_add_oversize()
        h.op_add()
        h.check_all_reads()
        h.close('close')
        h.open_session('read')
        h.check_len()
        h.check_all_reads()
        h.op_iter()
        if h.identified:
            for _ in range(3):
                h.op_lookup(True)
        h.close('close')
        if rec.counters.get('oversize_refusals', 0) > before:
            rec.cls('A:larger-than-cache@rejected-nothing-lost')
    finally:
        h.cleanup()


def run_shard(spec, rec):
    from vlib.storeops import Mismatch

    workdir = Path(tempfile.mkdtemp(prefix='c10-'))
    part = spec['part']
    try:
        ks = [spec['only']] if 'only' in spec else range(spec['n'])
        for k in ks:
            rng = random.Random(f"{spec['seed']}-{k}-{part}")
            try:
                if part == 'A':
                    s = add_faults(rng, workdir, rec, k)
                    memory_full(random.Random(f"{spec['seed']}-{k}-mem"), workdir, rec, k)
                    cache_refusals(random.Random(f"{spec['seed']}-{k}-big"), workdir, rec, k)
                elif part == 'B':
                    s = refused_merges(rng, workdir, rec, k)
                else:
                    s = interrupted_merges(rng, workdir, rec, k, spec.get('family', 'all'),
                                           spec.get('line_budget'))
                if k == 0 and part != 'C':
                    rec.sample({'part': part, **(s or {})})
            except Mismatch as m:
                m.detail['part'] = part
                classify(rec, m, {'spec': {kk: spec[kk] for kk in ('part', 'seed', 'n')},
                                  'k': k})
    finally:
        shutil.rmtree(workdir, ignore_errors=True)


def classify(rec, m, case):
    rec.violation(m.mechanism, m.detail, case)
