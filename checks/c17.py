"""C17 — each simulated flight is independent of the builder's history and failures.

S2: sequences of successful and failing flights on one long-lived
LegacyBuilder; every call is compared with the same mission flown by a
brand-new builder (bit-identical trajectory or identical exception), the
exception must be the original reason, no context may be left behind, and with
mass iteration the returned trajectory must satisfy the requested tolerance.
"""

from __future__ import annotations

import random
import shutil
import tempfile
from pathlib import Path

ID = 'C17'
LEVEL = 'exploration'
RULE = ('histories of 3-20 flights on ONE builder instance mixing flyable missions with every '
        'failure kind {unknown airport, airport above cruise level, out-of-envelope state, '
        'route too short, missing weather file, point outside the weather domain, '
        'non-converging mass iteration} over option sets {mass iteration on/off with several '
        'tolerances, weather on/off, step fractions, given/computed starting mass}; each call is '
        'compared with a brand-new builder flying the same mission (all per-point fields and '
        'metadata array_equal, or same exception type and message); rejected missions must '
        'raise their original reason (never AttributeError/KeyError/TypeError/NameError/'
        'AssertionError), no ctx attribute may survive a call, and |trip-fuel residual| < '
        'tolerance for every trajectory returned with mass iteration; 40 % of the histories fly several performance-model objects on the one builder (resident ones and ones loaded for a single flight and dropped, re-loaded until a new model lands on a dropped model\'s address); class = (position in '
        'history, previous outcome, this outcome kind, options)')
ASSUMPTIONS = [
    'only the legacy builder is concrete in this repository',
    'weather cases use the repository\'s single weather file (2024-09-01, eastern US)',
]
SHARD_TIMEOUT = {'quick': 900, 'thorough': 7200}
LEVEL_TEXT = ('Exploration by history-based runtime monitoring: a long-lived builder is driven '
              'through mixed success/failure sequences and every call is compared with a fresh '
              'builder.')
LEVEL_NOTE = 'Bit-identity is demanded (array_equal), so any state leaking between flights is visible.'
TECHNIQUE = 'differential history monitor (long-lived vs fresh builder) + exception-origin classification'

INTERNAL = ('AttributeError', 'KeyError', 'TypeError', 'NameError', 'UnboundLocalError',
            'AssertionError', 'IndexError')
POINT_FIELDS = ['fuel_flow', 'aircraft_mass', 'fuel_mass', 'ground_distance', 'altitude',
                'flight_level', 'rate_of_climb', 'flight_time', 'latitude', 'longitude',
                'azimuth', 'heading', 'true_airspeed', 'ground_speed']
META = ['starting_mass', 'total_fuel_mass', 'n_climb', 'n_cruise', 'n_descent', 'name',
        'flight_id']


def plan(tier, seed):
    per = 7 if tier == 'quick' else 300
    return [{'seed': seed * 1000 + i, 'n': per} for i in range(16)]


def required(tier):
    cl = ['kind:ok', 'kind:unknown-airport', 'kind:above-cruise', 'kind:out-of-envelope',
          'kind:too-short', 'kind:missing-weather', 'kind:outside-weather-domain',
          'after:failure->ok', 'after:ok->ok', 'after:failure->failure', 'weather:on',
          'mass-iteration:converged', 'mass-iteration:first-pass-residual-negative',
          'table:low-ceiling-15k', 'table:thirsty-climb', 'starting-mass:given', 'identical-to-fresh-builder',
          'history:several-models-on-one-builder', 'table:transient-variant',
          'history:config-reloaded:weather-dir-other', 'history:config-reloaded:weather-dir-empty',
          'history:flight-interrupted-by-KeyboardInterrupt',
          'same-exception-as-fresh-builder']
    return {'classes': cl, 'evaluations': 300}


def run_shard(spec, rec):
    import numpy as np
    import pandas as pd

    import AEIC.trajectories.builders as tb
    from AEIC.config import Config
    from AEIC.missions import Mission
    from AEIC.performance.models import PerformanceModel
    from AEIC.trajectories.ground_track import GroundTrack
    from vlib import boot, world
    from vlib import flightgen as fg
    from vlib.storeops import Mismatch

    hdir = Path(tempfile.mkdtemp(prefix='c17-'))
    w = world.write_world(hdir)
    world.load_config(hdir)
    base = fg.sample_model_dict()
    pms = {'sample': PerformanceModel.from_data(base),
           'low-ceiling-15k': PerformanceModel.from_data(fg.special_model(base, ceiling_ft=15000)),
           'low-ceiling-19k': PerformanceModel.from_data(fg.special_model(base, ceiling_ft=19000)),
           'thirsty-climb': PerformanceModel.from_data(fg.special_model(base, climb_ff_scale=4.0)),
           'ceiling-2500ft': PerformanceModel.from_data(fg.special_model(base, ceiling_ft=2500))}
    # airports of the library's supplemental file that have no elevation in the data base
    no_elev = sorted(c_ for c_, a_ in w.items() if a_['tag'] == 'patch' and a_['elev_m'] == 0.0)[:6]
    pm = pms['sample']
    wx_day = pd.Timestamp('2024-09-01T12:00:00Z')
    # a second weather directory: same day, winds of half the strength and reversed sign
    import xarray as xr
    other_wx = hdir / 'weather_other'
    other_wx.mkdir()
    with xr.open_dataset(boot.REPO_TEST_DATA / 'weather' / '20240901.nc') as ds0:
        ds1 = ds0.load().copy(deep=True)
    ds1['u'] = -0.5 * ds1['u']
    ds1['v'] = -0.5 * ds1['v']
    ds1.to_netcdf(other_wx / '20240901.nc')
    empty_wx = hdir / 'weather_empty'
    empty_wx.mkdir()

    def mission(o, d, lf, t=None, fid=None):
        t = t or pd.Timestamp('2024-03-03T12:00:00Z')
        return Mission(origin=o, destination=d, departure=t, arrival=t + pd.Timedelta(hours=3),
                       load_factor=lf, aircraft_type='738', flight_id=fid)

    def gen_call(rng, use_weather):
        """-> (kind, mission, starting_mass)"""
        if use_weather:
            kind = rng.choice(['ok', 'ok', 'missing-weather', 'outside-weather-domain',
                               'unknown-airport'])
        else:
            kind = rng.choice(['ok', 'ok', 'ok', 'unknown-airport', 'above-cruise',
                               'out-of-envelope', 'too-short'])
        sm = None
        if kind == 'ok':
            if use_weather:
                o, d = rng.choice([('BOS', 'ATL'), ('ATL', 'BOS'), ('JFK', 'ATL')])
                m = mission(o, d, rng.uniform(0.6, 1.0), wx_day, rng.choice([None, 77]))
            else:
                if rng.random() < 0.35:
                    o, d = rng.choice([('DEN', 'ABQ'), ('ABQ', 'DEN'), ('DEN', 'LAX'), ('BOS', 'JFK'),
                                       ('XE2', 'XN4'), ('ABQ', 'LAS'), ('JFK', 'IAD'),
                                       ('DEN', 'ORD'), ('SFO', 'LAX')])
                    m = mission(o, d, 0.8)
                    rk = 'named'
                else:
                    for _ in range(50):
                        m, rk = fg.gen_mission(rng, w, rng.choice(['ordinary', 'ordinary',
                                                                   'antimeridian', 'polar']))
                        if rk in ('ordinary', 'antimeridian', 'polar'):
                            break
                m = mission(m.origin, m.destination, rng.uniform(0.6, 1.0), None,
                            rng.choice([None, 5, 99]))
                if rng.random() < 0.25:
                    sm = rng.uniform(60000, pm.maximum_mass)
        elif kind == 'unknown-airport':
            o, d = rng.choice([('QQQ', 'BOS'), ('BOS', 'ZZ9'), ('???', '!!!')])
            m = mission(o, d, 0.8, wx_day if use_weather else None)
        elif kind == 'above-cruise':
            o, d = rng.choice([('XE4', 'XE3'), ('XT3', 'XE4'), ('XE4', 'XE2')])
            if pm is pms['ceiling-2500ft'] and no_elev:
                # with a 2 500 ft ceiling every airport is "above cruise level", also one
                # whose elevation is missing from the data base
                o, d = rng.choice([('BOS', rng.choice(no_elev)), (rng.choice(no_elev), 'JFK'),
                                   ('JFK', 'BOS')])
                rec.cls('kind:above-cruise:airport-without-elevation'
                        if (o in no_elev or d in no_elev) else 'kind:above-cruise:low-ceiling')
            m = mission(o, d, 0.8)
        elif kind == 'out-of-envelope':
            m = mission(*rng.choice([('BOS', 'XN2'), ('LAX', 'XL3'), ('XA7', 'XP1')]), 1.0)
        elif kind == 'too-short':
            m = mission(*rng.choice([('XC1', 'XC2'), ('XC2', 'XC1'), ('XC1', 'XC3')]), 0.9)
        elif kind == 'missing-weather':
            m = mission('BOS', 'ATL', 0.9, pd.Timestamp('2024-09-02T12:00:00Z'))
        else:
            m = mission('BOS', 'LAX', 0.9, wx_day)
        return kind, m, sm

    from AEIC.trajectories.builders.base import Builder
    residuals = []
    orig_iter = Builder._fly_iteration

    def recording_iteration(self):
        t, res = orig_iter(self)
        residuals.append(float(res))
        return t, res
    Builder._fly_iteration = recording_iteration

    def outcome(builder, m, sm, pm):
        residuals.clear()
        try:
            t = builder.fly(pm, m, starting_mass=sm) if sm is not None else builder.fly(pm, m)
            return ('ok', t)
        except Exception as e:  # noqa: BLE001
            return ('exc', e)

    def same_traj(a, b):
        if len(a) != len(b):
            return f'length {len(a)} vs {len(b)}'
        for f in POINT_FIELDS:
            if not np.array_equal(np.asarray(getattr(a, f)), np.asarray(getattr(b, f))):
                i = int(np.flatnonzero(np.asarray(getattr(a, f)) != np.asarray(getattr(b, f)))[0])
                return f'field {f} differs at point {i}'
        for f in META:
            if getattr(a, f) != getattr(b, f):
                return f'metadata {f}: {getattr(a, f)!r} vs {getattr(b, f)!r}'
        return None

    try:
        ks = [spec['only']] if 'only' in spec else range(spec['n'])
        for k in ks:
            rng = random.Random(f"{spec['seed']}-{k}")
            case = {'spec': {'seed': spec['seed'], 'n': spec['n']}, 'k': k}
            use_weather = rng.random() < 0.3
            tables_ = ['sample', 'low-ceiling-15k', 'sample', 'low-ceiling-19k', 'thirsty-climb',
                       'ceiling-2500ft']
            rng.random()                      # (keeps the stream aligned with earlier versions)
            pm_name = 'sample' if use_weather else tables_[k % len(tables_)]
            pm = pms[pm_name]
            iterate = rng.random() < 0.5
            reltol = rng.choice([1e-2, 1e-3, 1e-5, 1e-9, 1e-13])
            iters = rng.choice([2, 5, 25]) if reltol > 1e-12 else rng.choice([25, 80])
            frac = rng.choice([0.01, 0.02, 0.013, 0.05])
            if use_weather:
                frac = rng.choice([0.1, 0.2, 1 / 7])      # wind lookups are slow (xarray)

            def mk():
                return tb.LegacyBuilder(
                    options=tb.Options(iterate_mass=iterate, use_weather=use_weather,
                                       max_mass_iters=iters, mass_iter_reltol=reltol),
                    legacy_options=tb.LegacyOptions(frac_step_clm=frac, frac_step_crz=frac,
                                                    frac_step_des=frac))
            opts = {'iterate_mass': iterate, 'reltol': reltol, 'max_iters': iters,
                    'use_weather': use_weather, 'frac_step': frac, 'table': pm_name}
            veteran = mk()
            prev = None
            log = []
            try:
                multi_model = (not use_weather) and rng.random() < 0.4
                reloaded = False
                active_wx = 'original'
                case_pm, case_pm_name = pm, pm_name
                dropped_ids = set()
                preloaded = None

                def load_variant():
                    vd = fg.variant_model(rng, base)
                    keep_alive = []
                    for _ in range(40):       # try to land on a dropped model's address
                        cand = PerformanceModel.from_data(vd)
                        if not dropped_ids or id(cand) in dropped_ids:
                            break
                        keep_alive.append(cand)
                    return cand
                for step in range(rng.randint(3, 5) if use_weather else
                                  rng.randint(10, 20) if multi_model else rng.randint(3, 12)):
                    pm, pm_name = case_pm, case_pm_name
                    transient = False
                    if multi_model:
                        # one long-lived builder, several model objects over time: the case's
                        # model, another resident model, or a model loaded for this flight
                        # only and dropped afterwards (its address may be recycled)
                        r_ = rng.random()
                        if r_ < 0.75:
                            pm = preloaded if preloaded is not None else load_variant()
                            preloaded = None
                            pm_name, transient = 'transient-variant', True
                            if id(pm) in dropped_ids:
                                rec.count('model_address_reused')
                                rec.cls('history:model-at-recycled-address')
                        elif r_ < 0.9:
                            pm_name = rng.choice(sorted(pms))
                            pm = pms[pm_name]
                        rec.cls('history:several-models-on-one-builder')
                    opts['table'] = pm_name
                    if use_weather and step >= 1 and rng.random() < 0.35:
                        # the global configuration is re-loaded with another weather directory
                        # while the builder lives on: it must fly like a brand-new builder
                        which = rng.choice(['other', 'empty', 'original'])
                        wdir = {'other': other_wx, 'empty': empty_wx,
                                'original': boot.REPO_TEST_DATA / 'weather'}[which]
                        world.load_config(hdir, weather={'use_weather': True,
                                                         'weather_data_dir': str(wdir)})
                        reloaded = True
                        active_wx = which
                        log.append(('config-reloaded', which))
                        rec.cls(f'history:config-reloaded:weather-dir-{which}')
                    kind, m, sm = gen_call(rng, use_weather)
                    if rng.random() < 0.12:
                        # the user interrupts a flight (Ctrl-C) somewhere in the middle: the
                        # builder must stay usable and fly like a brand-new one afterwards
                        calls = {'n': 0, 'at': rng.randint(1, 40)}
                        real_step = GroundTrack.step

                        def interrupting_step(self_, *a, **k_):
                            calls['n'] += 1
                            if calls['n'] == calls['at']:
                                raise KeyboardInterrupt()
                            return real_step(self_, *a, **k_)
                        GroundTrack.step = interrupting_step
                        try:
                            veteran.fly(pm, m)
                            interrupted = False
                        except KeyboardInterrupt:
                            interrupted = True
                        except Exception:  # noqa: BLE001
                            interrupted = False
                        finally:
                            GroundTrack.step = real_step
                        if interrupted:
                            log.append(('interrupted-by-KeyboardInterrupt', m.origin,
                                        m.destination))
                            rec.cls('history:flight-interrupted-by-KeyboardInterrupt')
                            if 'ctx' in vars(veteran):
                                raise Mismatch('the simulation context survives a call to fly()',
                                               {'after': 'KeyboardInterrupt', 'history': log[-6:],
                                                'options': opts})
                    got = outcome(veteran, m, sm, pm)
                    first_res = residuals[0] if residuals else None
                    n_passes = len(residuals)
                    got_residuals = list(residuals)
                    ref = outcome(mk(), m, sm, pm)
                    rec.ev()
                    det = {'step': step, 'kind': kind, 'mission': [m.origin, m.destination],
                           'starting_mass': sm, 'options': opts, 'history': log[-8:]}
                    if 'ctx' in vars(veteran):
                        raise Mismatch('the simulation context survives a call to fly()', det)
                    if got[0] != ref[0]:
                        raise Mismatch(
                            'outcome on a used builder differs from a brand-new builder',
                            {'used': _o(got), 'fresh': _o(ref), **det})
                    if got[0] == 'ok':
                        diff = same_traj(got[1], ref[1])
                        if diff:
                            raise Mismatch('trajectory on a used builder is not bit-identical to '
                                           'a brand-new builder', {'difference': diff, **det})
                        rec.cls('identical-to-fresh-builder')
                        t = got[1]
                        if iterate:
                            burned = float(t.starting_mass) - float(t.aircraft_mass[-1])
                            res = (float(t.total_fuel_mass) - burned) / float(t.total_fuel_mass)
                            # the residual recomputed from the returned arrays carries about
                            # 1e-12 of rounding; the residual the builder itself evaluated for
                            # the returned pass (recorded at _fly_iteration) is exact
                            own = got_residuals[-1] if got_residuals else None
                            if not abs(res) < reltol + 2e-12 or (
                                    own is not None and not abs(own) < reltol):
                                raise Mismatch('mass iteration returned a trajectory whose '
                                               'leftover trip fuel exceeds the tolerance',
                                               {'residual': res, 'residual_of_last_pass': own,
                                                'passes': len(got_residuals), **det})
                            if reltol < 1e-11:
                                rec.cls('mass-iteration:converged-to-a-very-tight-tolerance')
                            rec.cls('mass-iteration:converged')
                            if first_res is not None and first_res < -reltol:
                                rec.cls('mass-iteration:first-pass-residual-negative')
                            if n_passes > 1:
                                rec.cls('mass-iteration:several-passes')
                        rec.cls(f'table:{pm_name}')
                        if kind != 'ok':
                            rec.cls(f'unexpectedly-flown:{kind}')
                        this = 'ok'
                    else:
                        e, er = got[1], ref[1]
                        tn = type(e).__name__
                        if tn != type(er).__name__ or str(e) != str(er):
                            raise Mismatch('exception on a used builder differs from a '
                                           'brand-new builder', {'used': _o(got), 'fresh': _o(ref),
                                                                 **det})
                        rec.cls('same-exception-as-fresh-builder')
                        if tn in INTERNAL:
                            raise Mismatch(
                                f'a rejected mission surfaces an internal {tn} instead of the '
                                'original reason', {'error': f'{tn}: {str(e)[:160]}', **det})
                        if kind == 'unknown-airport' and not (
                                isinstance(e, ValueError) and 'Unknown airport' in str(e)):
                            raise Mismatch('unknown airport is not reported as such',
                                           {'error': f'{tn}: {e}', **det})
                        if kind == 'above-cruise' and not isinstance(e, ValueError):
                            raise Mismatch('airport above cruise level not reported as ValueError',
                                           {'error': f'{tn}: {e}', **det})
                        if kind == 'missing-weather' and not isinstance(e, FileNotFoundError):
                            raise Mismatch('missing weather file not reported as '
                                           'FileNotFoundError', {'error': f'{tn}: {e}', **det})
                        if kind == 'outside-weather-domain' and active_wx != 'empty' and not (
                                isinstance(e, ValueError) and 'weather' in str(e)):
                            raise Mismatch('point outside the weather domain not reported as such',
                                           {'error': f'{tn}: {e}', **det})
                        if kind == 'too-short' and not isinstance(
                                e, GroundTrack.Exception | ValueError) and not (
                                # with a low-ceiling table the "short" route is flyable, and
                                # the permitted outcome of mass iteration is non-convergence
                                opts.get('iterate_mass') and isinstance(e, RuntimeError)
                                and 'failed to converge' in str(e)):
                            raise Mismatch('too short a route not reported as such',
                                           {'error': f'{tn}: {e}', **det})
                        if kind == 'ok':
                            if isinstance(e, RuntimeError) and 'failed to converge' in str(e):
                                rec.cls('kind:mass-iteration-not-converged')
                            else:
                                rec.cls(f'ok-mission-rejected:{tn}')
                        this = 'failure'
                    rec.cls(f'kind:{kind}')
                    if use_weather:
                        rec.cls('weather:on')
                    if sm is not None and got[0] == 'ok':
                        rec.cls('starting-mass:given')
                    if prev is not None:
                        rec.cls(f'after:{prev}->{this}')
                    prev = this
                    log.append((kind, m.origin, m.destination, this if got[0] == 'ok'
                                else type(got[1]).__name__, pm_name))
                    if transient:
                        got = ref = t = e = er = None      # nothing else keeps the model alive
                        dropped_ids.add(id(pm))
                        pm = case_pm
                        # the next model is loaded right after this one was dropped (that is
                        # when CPython hands the same address out again)
                        preloaded = load_variant()
                if k < 2:
                    rec.sample({'options': opts, 'history': log})
                if reloaded:
                    world.load_config(hdir)
            except Mismatch as mm:
                rec.violation(mm.mechanism, mm.detail, case)
                if reloaded:
                    world.load_config(hdir)
    finally:
        Builder._fly_iteration = orig_iter
        Config.reset()
        shutil.rmtree(hdir, ignore_errors=True)


def _o(x):
    return 'trajectory' if x[0] == 'ok' else f'{type(x[1]).__name__}: {str(x[1])[:140]}'
