"""C02 — simulated trajectories obey mass, time, distance and route bookkeeping.

S1: a postcondition attached (icontract) to the real LegacyBuilder.fly checks
every returned trajectory against independent invariants (independent Vincenty
geodesy, altitude schedule recomputed from airport elevations and ceiling);
missions come from the hostile harness world; Trajectory.interpolate_time is
checked on every returned trajectory.
"""

from __future__ import annotations

import random
import shutil
import tempfile
from pathlib import Path

ID = 'C02'
LEVEL = 'exploration'
RULE = ('missions over the harness world (85 airports: repository airports + antimeridian, '
        'polar, near-antipodal, same-longitude/latitude, 14-60 km pairs, below sea level, '
        '4 000-4 400 m, above cruise level) x load factor 0..1 x given/computed starting mass x '
        'step fractions {0.01, 0.02, 0.05, 0.013, 0.1, 1/7, 0.5, 0.004} (point counts that do '
        'and do not end on the 50-point growth boundary) x mass iteration on/off x {sample '
        'table, scaled/thinned variants, ceilings 35-41 kft}; every RETURNED trajectory must '
        'satisfy: mass-fuel constant, fuel/mass non-increasing, time/distance non-decreasing, '
        'first point = reported starting mass and fuel, positions on the origin-destination '
        'geodesic at the recorded distance (independent Vincenty), altitude schedule, all '
        'finite; resampling at own / mid times; rejected missions are counted; class = (route '
        'kind, step bucket, capacity-aligned, outcome, mass iteration)')
ASSUMPTIONS = [
    'only the legacy builder exists; weather off (C16/C17 cover wind and weather failures)',
    'at a duplicated time stamp (phase hand-over points) resampling may return either value',
    'an unflyable mission may be rejected with any exception; what is judged is every '
    'trajectory that IS returned',
]
SHARD_TIMEOUT = {'quick': 900, 'thorough': 7200}
LEVEL_TEXT = ('Exploration: runtime postcondition on the real builder over hostile missions, '
              'step sizes and tables; the invariants are recomputed independently.')
LEVEL_NOTE = 'Trusts the independent Vincenty geodesic (sub-mm) and the airport data written by the harness.'
TECHNIQUE = 'postcondition monitor (icontract) on LegacyBuilder.fly + resampling oracle'

STEPS = [0.01, 0.02, 0.05, 0.013, 0.1, 1 / 7, 0.5, 0.004]


def plan(tier, seed):
    per = 60 if tier == 'quick' else 1400
    return [{'seed': seed * 1000 + i, 'n': per} for i in range(16)] + \
        [{'seed': seed, 'n': 0, 'pytest': ['tests/test_golden.py'] + (
            ['tests/test_trajectory_simulation.py'] if tier == 'thorough' else [])}]


def required(tier):
    cl = ['route:ordinary', 'route:antimeridian', 'route:polar', 'route:high', 'route:short-hop',
          'route:weather-domain',
          'route:above-cruise', 'route:close', 'capacity:aligned', 'capacity:not-aligned',
          'outcome:flown', 'outcome:rejected', 'mass-iteration:on', 'mass-iteration:off',
          'resampled:own-times', 'table:sample', 'table:variant', 'table:low-ceiling', 'starting-mass:given',
          'starting-mass:computed', 'workload:repository-tests-under-contract']
    return {'classes': cl, 'counters': {'contract_evaluations': 100}, 'evaluations': 300}


def run_shard(spec, rec):
    if spec.get('pytest'):
        from vlib.pytest_contracts import run_repo_tests
        run_repo_tests('C02', spec['pytest'], rec)
        return
    import icontract

    import AEIC.trajectories.builders as tb
    from AEIC.config import Config
    from AEIC.missions import Mission
    from AEIC.performance.models import PerformanceModel
    from AEIC.trajectories.builders.base import Builder
    from vlib import flightgen as fg
    from vlib import world

    hdir = Path(tempfile.mkdtemp(prefix='c02-'))
    w = world.write_world(hdir)
    world.load_config(hdir)
    state = {'problems': None, 'pm': None}

    class Broken(Exception):
        pass

    def consistent(self, ac_performance, mission, result):
        rec.count('contract_evaluations')
        state['problems'] = fg.check_trajectory(result, ac_performance, w, mission)
        return True

    orig_fly = Builder.fly
    tb.LegacyBuilder.fly = icontract.ensure(consistent, error=Broken, enabled=True)(orig_fly)
    try:
        base = fg.sample_model_dict()
        rng0 = random.Random(spec['seed'])
        models = [('sample', PerformanceModel.from_data(base))]
        for _ in range(3):
            models.append(('variant', PerformanceModel.from_data(fg.variant_model(rng0, base))))
        for ceil in (10000, 12000, 16000):
            models.append(('low-ceiling', PerformanceModel.from_data(
                fg.special_model(base, ceiling_ft=ceil))))
        models.append(('shallow-descent', PerformanceModel.from_data(
            fg.special_model(base, descent_rocd_scale=0.7))))
        wx_models = [m_ for m_ in models if m_[0] in ('sample', 'shallow-descent')]
        wx_pairs = [('BOS', 'ATL'), ('ATL', 'BOS'), ('JFK', 'ATL'), ('BOS', 'JFK'), ('JFK', 'BOS'),
                    ('IAD', 'BOS'), ('ATL', 'JFK'), ('JFK', 'IAD')]
        import pandas as pd
        kinds = ['ordinary', 'ordinary', 'antimeridian', 'polar', 'near-antipodal', 'high',
                 'above-cruise', 'close', 'below-sea-level', None, None]
        ks = [spec['only']] if 'only' in spec else range(spec['n'])
        for k in ks:
            rng = random.Random(f"{spec['seed']}-{k}")
            case = {'spec': {'seed': spec['seed'], 'n': spec['n']}, 'k': k}
            label, pm = rng.choice(models)
            mission, rk = fg.gen_mission(rng, w, rng.choice(kinds))
            fc, fz, fd = (rng.choice(STEPS) for _ in range(3))
            if rng.random() < 0.5:
                fz = fd = fc
            iterate = rng.random() < 0.35
            opts = tb.Options(iterate_mass=iterate, max_mass_iters=rng.choice([5, 10, 30]),
                              mass_iter_reltol=rng.choice([1e-2, 1e-3, 1e-4]))
            # one case in six flies through the repository's weather file (winds change the
            # ground speed; positions must still sit at the recorded ground distance)
            windy = rng.random() < 0.17
            if windy:
                label, pm = rng.choice(wx_models)
                o_, d_ = rng.choice(wx_pairs)
                t0_ = pd.Timestamp('2024-09-01T12:00:00Z')
                mission = Mission(origin=o_, destination=d_, departure=t0_,
                                  arrival=t0_ + pd.Timedelta(hours=3),
                                  load_factor=rng.uniform(0.5, 1.0), aircraft_type='738')
                rk = 'weather-domain'
                fc, fz, fd = (rng.choice([0.1, 0.05, 1 / 7]) for _ in range(3))
                opts = tb.Options(iterate_mass=iterate, max_mass_iters=5, mass_iter_reltol=1e-2,
                                  use_weather=True)
            builder = tb.LegacyBuilder(options=opts, legacy_options=tb.LegacyOptions(
                frac_step_clm=fc, frac_step_crz=fz, frac_step_des=fd))
            given = rng.random() < 0.3
            sm = None
            if given:
                sm = rng.uniform(pm.empty_mass * 1.05, pm.maximum_mass)
            npts = [int(1 / fc), int(1 / fz), int(1 / fd + 1)]
            aligned = all(x % 50 == 0 for x in (npts[0], npts[0] + npts[1]))
            desc = {'origin': mission.origin, 'destination': mission.destination,
                    'route': rk, 'load_factor': mission.load_factor, 'steps': [fc, fz, fd],
                    'points_per_phase': npts, 'iterate_mass': iterate, 'starting_mass': sm,
                    'table': label, 'ceiling_ft': pm.maximum_altitude_ft}
            state['problems'] = None
            rec.ev()
            try:
                traj = builder.fly(pm, mission, starting_mass=sm) if given else \
                    builder.fly(pm, mission)
            except Exception as e:  # noqa: BLE001
                rec.cls('outcome:rejected', f'route:{rk}',
                        f'rejected:{rk}:{type(e).__name__}', f'why:{type(e).__name__}:{str(e)[:70]}')
                continue
            probs = state['problems']
            if probs is None:
                rec.inconc('postcondition on LegacyBuilder.fly was not evaluated')
                continue
            if probs:
                mech, det = probs[0]
                rec.violation(mech, {**det, **desc, 'more': [p[0] for p in probs[1:4]]}, case)
                continue
            rp = fg.check_resampling(traj)
            rec.ev()
            if rp:
                mech, det = rp[0]
                rec.violation(mech, {**det, **desc, 'n_points': len(traj)}, case)
                continue
            rec.cls('outcome:flown', f'route:{rk}',
                    'capacity:' + ('aligned' if aligned else 'not-aligned'),
                    'mass-iteration:' + ('on' if iterate else 'off'), 'resampled:own-times',
                    f'table:{label}', 'starting-mass:' + ('given' if given else 'computed'),
                    f'combo:{rk}:{"A" if aligned else "N"}:{"I" if iterate else "-"}:{label}',
                    f'steps:{fc:.3f}')
            if k < 3:
                rec.sample({**desc, 'n_points': len(traj)})
    finally:
        tb.LegacyBuilder.fly = orig_fly
        if 'fly' in tb.LegacyBuilder.__dict__:
            del tb.LegacyBuilder.fly
        Config.reset()
        shutil.rmtree(hdir, ignore_errors=True)
