"""C04 — gridding conserves every integrated quantity.

S3: the real Gridder.grid_trajectory on generated geometry; a state variable
carries the segment index so every returned piece names its segment; the
oracle re-sums the pieces per segment and bounds the excess by its own
brute-force measurement of the straight map line (vlib/gridwork.py).
"""

from __future__ import annotations

import math
import random

ID = 'C04'
LEVEL = 'exploration'
RULE = ('generated grids (0.25-10 degree, regular and irregular spacing, with/without '
        'altitude and time axes) x generated point sequences {random walk, single cell, long '
        'segments crossing 1-40+ lines, points exactly on grid lines, on corners, meridian '
        'runs, parallel runs, west/south-bound legs, one antimeridian crossing in either '
        'direction, repeated (zero-length) points}, 0-3 state and 1-3 integrated variables; '
        'per segment i and integrated variable v: sum(pieces) = v_i * rho_i with 1-1e-9 <= '
        'rho_i <= rho_i* + 1e-6, rho_i* = (sum of geodesic lengths of M straight map-line '
        'pieces)/(geodesic length of the segment) measured by the oracle; zero-length segments '
        'return exactly v_i; gridded total within the same bounds of the trajectory total; no '
        'NaN, no negative piece; class = (geometry kind, resolution bucket, axes)')
ASSUMPTIONS = [
    'points are kept strictly inside the covered range of the grid (index -1 wrap-around is '
    'outside the quantifier "within the grid"); longitudes of global grids start at -pi',
    'integrated quantities are non-negative',
]
SHARD_TIMEOUT = {'quick': 600, 'thorough': 3600}
LEVEL_TEXT = ('Exploration: runtime re-summation oracle over generated segment-versus-grid '
              'geometry on the real gridder (no gridding tests exist in the repository).')
LEVEL_NOTE = 'Trusts pyproj geodesic lengths (called with explicit keywords) for the excess bound.'
TECHNIQUE = 'conservation monitor (independent per-segment re-summation) over generated geometry'


def plan(tier, seed):
    per = 1300 if tier == 'quick' else 12000
    return [{'seed': seed * 1000 + i, 'n': per} for i in range(16)] + \
        [{'seed': seed * 1000 + 77, 'n': 0, 'huge': 70000 if tier == 'quick' else 200000}]


def required(tier):
    from vlib.gridwork import KINDS
    cl = [f'geom:{k}' for k in KINDS] + ['history:regridded-after-many-other-trajectories', 'gridder:object-switched-to-another-grid', 'trajectory:more-than-65536-points', 'entry-point:older', 'entry-point:older:antimeridian', 'entry-point:older:antimeridian:time-without-altitude', 'axes:alt+time', 'axes:', 'res:fine', 'res:medium',
                                         'res:coarse', 'segment:zero-length',
                                         'segment:zero-length-in-three-or-more-cells',
                                         'segment:antimeridian', 'segment:many-crossings',
                                         'integrated:integer-typed']
    return {'classes': cl, 'evaluations': 1500}


def judge(c, rec, Mismatch):
    import numpy as np

    from vlib import gridwork as gw

    if c.error:
        raise Mismatch('gridding a path inside the grid raised', {'error': c.error, **c.desc})
    if not c.len_ok:
        raise Mismatch('output arrays have different lengths', {'lengths': c.lengths, **c.desc})
    if c.input_mutated or c.regrid_differs:
        raise Mismatch('gridding a trajectory changes the caller\'s arrays, so gridding it again '
                       'gives different totals', {'arrays_changed': c.input_mutated,
                                                  'regrid_differs': c.regrid_differs, **c.desc})
    n_seg = len(c.lats) - 1
    total_in = [float(np.sum(v)) for v in c.integ]
    total_out = [0.0] * c.n_integ
    total_hi = [0.0] * c.n_integ
    total_slack = [0.0] * c.n_integ
    for s in range(n_seg):
        pcs = c.pieces.get(s, [])
        order, shares, poly_len, seg_len = gw.sample_segment(
            c.lats[s], c.lons[s], c.lats[s + 1], c.lons[s + 1], c.lat_g, c.lon_g, c.M)
        zero = seg_len == 0.0
        rho_star = 1.0 if zero else poly_len / seg_len
        # coordinates are resolved to about 3e-9 m (one ulp of a longitude in radians): for
        # segments shorter than a centimetre the straight line IS the geodesic and every
        # measured length carries that quantisation noise
        qtol = 0.0
        if seg_len > 0.0:
            qtol = min(0.45, 8 * 3e-9 / seg_len)       # negligible beyond a few metres
        if 0.0 < seg_len < 1e-2:
            rho_star = 1.0
        # a crossing that floating point cannot place better than a fraction eps of the
        # segment (segment nearly parallel to the grid line it crosses) may be put just
        # outside the segment: at most 2 eps of the length is then covered twice
        # (since repository fix 52e2074 crossings are kept on their segment, so nothing is
        # covered twice any more: no allowance)
        ctol = 0.0
        is_cross = c.cross_seg == s
        det = {'segment': s, 'from_deg': [math.degrees(c.lats[s]), math.degrees(c.lons[s])],
               'to_deg': [math.degrees(c.lats[s + 1]), math.degrees(c.lons[s + 1])],
               'pieces': len(pcs), 'rho_star': rho_star, 'zero_length': zero,
               'antimeridian': is_cross, **c.desc}
        rec.ev()
        if not pcs:
            raise Mismatch('a segment produced no piece at all', det)
        for q in range(c.n_integ):
            v = float(c.integ[q][s])
            vals = [p['integ'][q] for p in pcs]
            if any((not math.isfinite(x)) for x in vals):
                raise Mismatch('non-finite gridded quantity', {'values': vals[:6], **det})
            if any(x < -1e-12 * max(1.0, v) for x in vals):
                raise Mismatch('negative gridded quantity for non-negative input',
                               {'values': vals[:6], **det})
            got = math.fsum(vals)
            total_out[q] += got
            total_hi[q] += v * (rho_star + 1e-6)
            total_slack[q] += v * (qtol + ctol)
            lo = v * (1 - 1e-9 - qtol)
            hi = v * (rho_star + 1e-6 + qtol + ctol)
            if zero:
                lo = hi = v
            # (rounding of v/count * count when a zero-length segment has many pieces)
            if not (lo - 1e-12 * max(1.0, v) <= got <= hi + 1e-12 * max(1.0, v)):
                mech = ('quantity of a zero-length segment is lost' if zero and got < v else
                        'pieces of a segment add up to less than the segment\'s value'
                        if got < lo else
                        'pieces of a segment add up to more than the allowed excess')
                if is_cross:
                    mech += ' (antimeridian segment)'
                raise Mismatch(mech, {'variable': q, 'value': v, 'sum_of_pieces': got,
                                      'ratio': got / v if v else None, **det})
        if zero:
            rec.cls('segment:zero-length')
            if len(pcs) >= 3:
                rec.cls('segment:zero-length-in-three-or-more-cells')
        if 0.0 < seg_len < 1e-2 and len(pcs) >= 2:
            rec.cls('segment:shorter-than-1mm-across-a-grid-line' if seg_len < 1e-3
                    else 'segment:shorter-than-1cm-across-a-grid-line')
            if seg_len < 1e-8:
                rec.cls('segment:shorter-than-10nm-across-a-grid-line')
        if is_cross:
            rec.cls('segment:antimeridian')
        if len(pcs) >= 8:
            rec.cls('segment:many-crossings')
    for q in range(c.n_integ):
        rec.ev()
        if not (total_in[q] * (1 - 1e-9) - 1e-9 - total_slack[q] <= total_out[q]
                <= total_hi[q] + 1e-9 + total_slack[q]):
            raise Mismatch('gridded total differs from the trajectory total',
                           {'variable': q, 'total_in': total_in[q], 'total_out': total_out[q],
                            **c.desc})
    if c.int_integ:
        rec.cls('integrated:integer-typed')
    if getattr(c, 'reused_gridder', False):
        rec.cls('gridder:object-switched-to-another-grid')
    rec.cls('entry-point:' + ('older' if c.route != 'grid_trajectory' else 'grid_trajectory')
            + (':antimeridian' if c.cross_seg is not None else '')
            + (':time-without-altitude' if c.tim_g is not None and c.alt_g is None else ''))
    rec.cls(f'geom:{c.kind}', f'res:{c.grid["bucket"]}', f'axes:{c.desc["axes"]}',
            f'combo:{c.kind}:{c.grid["bucket"]}:{c.desc["axes"]}')


def run_shard(spec, rec):
    from vlib import gridwork as gw
    from vlib.storeops import Mismatch

    if 'huge' in spec:
        probs, desc = gw.huge_track(random.Random(f"huge-{spec['seed']}"), spec['huge'])
        rec.ev(spec['huge'])
        rec.count('points_in_longest_trajectory', spec['huge'])
        mine = [pr for pr in probs if any(w in pr[0] for w in ('less than', 'more than', 'total', 'lengths', 'raised', 'no piece'))]
        for mech, det in mine[:1]:
            rec.violation(mech, det, {'spec': dict(spec), 'k': 'huge'})
        if not mine:
            rec.cls('trajectory:more-than-65536-points')
        return

    M = 400 if spec.get('tier') == 'quick' else 1500
    first_cases: list = []
    ks = [spec['only']] if 'only' in spec else range(spec['n'])
    for k in ks:
        rng = random.Random(f"{spec['seed']}-{k}")
        case = {'spec': {'seed': spec['seed'], 'n': spec['n']}, 'k': k}
        c = gw.make_case(rng, k, M)
        if c.n_cross > 1:
            continue
        if len(first_cases) < 4 and not c.error and c.len_ok and not getattr(c, 'reused_gridder',
                                                                             False):
            first_cases.append((k, c))
        try:
            judge(c, rec, Mismatch)
            if k < 2:
                rec.sample(c.desc)
        except Mismatch as m:
            rec.violation(m.mechanism, m.detail, case)
    # ---- the first trajectories of this process gridded once more, after (in the thorough tier:
    # thousands of) other trajectories went through the same code: same arrays, same answer
    if 'only' not in spec and len(ks) >= 300:
        import AEIC.gridding.grid as grid_mod
        import numpy as np
        for k0, c in first_cases:
            rec.ev()
            try:
                out2 = gw.run_gridder(grid_mod.Gridder, c.lat_g, c.lon_g, c.alt_g, c.tim_g, c.lats,
                                      c.lons, c.alts, c.times, c.state, c.integ)
                same = all(len(a) == len(b) and np.allclose(a, b, rtol=1e-12, atol=0)
                           for a, b in zip(c.out[5], out2[5]))
                err = None
            except Exception as e:  # noqa: BLE001
                same, err = False, f'{type(e).__name__}: {str(e)[:160]}'
            if not same:
                rec.violation('a trajectory gridded again after many other trajectories gives a '
                              'different answer', {'error': err, 'griddings_in_between': len(ks),
                                                   **c.desc},
                              {'spec': {'seed': spec['seed'], 'n': spec['n']}, 'k': k0})
            else:
                rec.cls('history:regridded-after-many-other-trajectories')
