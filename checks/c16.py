"""C16 — ground speed is the length of airspeed vector plus wind vector.

S3: Weather.get_ground_speed on NetCDF files written by the harness (uniform
and affine wind fields, with/without a time axis) against
hypot(TAS sin h + u, TAS cos h + v) with (u, v) from an independent evaluation
of the field at the query point (affine fields are interpolated exactly by any
trilinear scheme).
"""

from __future__ import annotations

import math
import os
import random
import shutil
import tempfile
from pathlib import Path

ID = 'C16'
LEVEL = 'exploration'
RULE = ('harness-written weather files (uniform / affine-in-(p,lat,lon) u,v fields; with a '
        '24-step valid_time axis whose fields differ per hour, or without); queries over '
        'headings 0-360 incl. cardinal and 45-degree headings, TAS 50-300 m/s, altitudes '
        'inside the pressure-level range, positions inside the domain, azimuth given or '
        'taken from the ground-track point; oracle |air + wind| with air = TAS(sin h, cos h); '
        'sub-checks: no wind -> TAS, pure tail/head wind adds/subtracts fully, joint '
        'rotation invariance, ||TAS|-W| <= gs <= TAS+W, hour selection, one object queried for several dates / a date whose file is missing (refused, also when retried, correct once the file exists), refusal outside '
        'lat/lon/pressure domain; class = (field kind, time axis, heading class, sub-check)')
ASSUMPTIONS = [
    'wind fields are affine in (pressure, latitude, longitude), so exact under trilinear '
    'interpolation; altitude->pressure by an independent ISA implementation',
    'longitudes are given in the file\'s own convention (no wrap-around queries)',
]
SHARD_TIMEOUT = {'quick': 600, 'thorough': 3600}
LEVEL_TEXT = ('Exploration: differential runtime check of the real wind-triangle code on '
              'synthetic weather files against the vector-sum definition, with metamorphic '
              'sub-checks that do not depend on the reference.')
LEVEL_NOTE = 'Trusts xarray/netCDF for reading the harness files; tolerance 1e-9 relative.'
TECHNIQUE = 'differential + metamorphic oracle on return values, known-finding defect model'

KF = 'C16-air-vector-components-swapped'


def plan(tier, seed):
    per = 20 if tier == 'quick' else 400
    return [{'seed': seed * 1000 + i, 'n': per} for i in range(16)]


def required(tier):
    return {'classes': ['sub:no-wind', 'sub:tailwind', 'sub:headwind', 'sub:rotation',
                        'sub:triangle-bounds', 'sub:hour-selection', 'refused:lat',
                        'refused:lon', 'refused:pressure', 'field:uniform', 'field:affine',
                        'time-axis:yes', 'time-axis:no', 'heading:cardinal',
                        'heading:diagonal', 'heading:generic', 'azimuth:explicit',
                        'azimuth:from-track-point', 'history:same-hour-different-date',
                        'history:missing-day-retried-then-file-arrives',
                        'data-dir:percent-sign-in-path',
                        'date:iso-week-year-differs-from-calendar-year',
                        'data-dir:relative-path', 'file:unused-variable-with-missing-cells',
                        'file:incomplete-day:missing-hour-refused',
                        'file:longitude-axis-descending', 'file:packed-16-bit-with-scale-and-offset'],
            'evaluations': 800}


def _day64(path):
    import numpy as np
    from pathlib import Path as _P
    st = _P(path).stem
    return np.datetime64(f'{st[:4]}-{st[4:6]}-{st[6:8]}T00:00')


class Field:
    """u(p, lat, lon, hour) = c0 + c1 p + c2 lat + c3 lon + c4 hour (same for v)."""

    def __init__(self, rng, kind, timed):
        self.kind, self.timed = kind, timed
        if kind == 'zero':
            self.cu = self.cv = (0.0, 0.0, 0.0, 0.0, 0.0)
        elif kind == 'uniform':
            self.cu = (rng.uniform(-80, 80), 0, 0, 0, rng.uniform(-1, 1) if timed else 0)
            self.cv = (rng.uniform(-80, 80), 0, 0, 0, rng.uniform(-1, 1) if timed else 0)
        else:
            self.cu = (rng.uniform(-40, 40), rng.uniform(-0.03, 0.03), rng.uniform(-1, 1),
                       rng.uniform(-1, 1), rng.uniform(-1, 1) if timed else 0)
            self.cv = (rng.uniform(-40, 40), rng.uniform(-0.03, 0.03), rng.uniform(-1, 1),
                       rng.uniform(-1, 1), rng.uniform(-1, 1) if timed else 0)

    def uv(self, p, lat, lon, hour):
        def ev(c):
            return c[0] + c[1] * p + c[2] * lat + c[3] * lon + c[4] * hour
        return ev(self.cu), ev(self.cv)


def write_file(path: Path, fld: Field, rng):
    import numpy as np
    import xarray as xr

    levels = np.array([1000., 900., 800., 700., 600., 500., 400., 300., 250., 200., 150.])
    lat0, lon0 = rng.uniform(-60, 40), rng.uniform(-170, 140)
    lats = lat0 + np.arange(9) * 0.5
    if rng.random() < 0.5:
        lats = lats[::-1].copy()          # ERA5 stores latitude descending
    lons = lon0 + np.arange(11) * 0.5
    if getattr(fld, 'lon_descending', False):
        lons = lons[::-1].copy()          # east to west
    P, LA, LO = np.meshgrid(levels, lats, lons, indexing='ij')
    if fld.timed:
        hours = np.arange(getattr(fld, 'n_hours', 24))
        u = np.stack([fld.uv(P, LA, LO, h)[0] * np.ones_like(P) for h in hours])
        v = np.stack([fld.uv(P, LA, LO, h)[1] * np.ones_like(P) for h in hours])
        times = _day64(path) + hours * np.timedelta64(1, 'h')
        dims = ('valid_time', 'pressure_level', 'latitude', 'longitude')
        coords = {'valid_time': times, 'pressure_level': levels, 'latitude': lats,
                  'longitude': lons}
    else:
        u = fld.uv(P, LA, LO, 0)[0] * np.ones_like(P)
        v = fld.uv(P, LA, LO, 0)[1] * np.ones_like(P)
        dims = ('pressure_level', 'latitude', 'longitude')
        coords = {'pressure_level': levels, 'latitude': lats, 'longitude': lons}
    tvar = np.full_like(u, 250.0)
    if getattr(fld, 'masked_t', False):
        # the (unused) temperature field has missing cells, e.g. masked below ground
        tvar[..., : tvar.shape[-2] // 2 + 1, :] = np.nan
        tvar[..., 0:3, :, :] = np.nan
    ds = xr.Dataset({'u': (dims, u), 'v': (dims, v), 't': (dims, tvar)},
                    coords=coords)
    if getattr(fld, 'packed', False):
        # the classic ERA5 layout: 16-bit integers with scale_factor / add_offset
        enc = {}
        for nm, arr in (('u', u), ('v', v)):
            lo_, hi_ = float(np.min(arr)), float(np.max(arr))
            sc = max((hi_ - lo_) / 60000.0, 1e-6)
            enc[nm] = {'dtype': 'int16', 'scale_factor': sc, 'add_offset': 0.5 * (lo_ + hi_),
                       '_FillValue': -32767}
            fld.pack_step = max(getattr(fld, 'pack_step', 0.0), sc)
        ds.to_netcdf(path, encoding=enc)
    else:
        ds.to_netcdf(path)
    ds.close()
    return (float(lats.min()), float(lats.max()), float(lons.min()), float(lons.max()),
            float(levels.min()), float(levels.max()))


def write_file_same_grid(path, fld, lat_lo, lat_hi, lon_lo, lon_hi):
    import numpy as np
    import xarray as xr

    levels = np.array([1000., 900., 800., 700., 600., 500., 400., 300., 250., 200., 150.])
    lats = np.linspace(lat_lo, lat_hi, 9)
    lons = np.linspace(lon_lo, lon_hi, 11)
    P, LA, LO = np.meshgrid(levels, lats, lons, indexing='ij')
    hours = np.arange(24)
    u = np.stack([fld.uv(P, LA, LO, h)[0] * np.ones_like(P) for h in hours])
    v = np.stack([fld.uv(P, LA, LO, h)[1] * np.ones_like(P) for h in hours])
    times = _day64(path) + hours * np.timedelta64(1, 'h')
    dims = ('valid_time', 'pressure_level', 'latitude', 'longitude')
    ds = xr.Dataset({'u': (dims, u), 'v': (dims, v), 't': (dims, np.full_like(u, 250.0))},
                    coords={'valid_time': times, 'pressure_level': levels, 'latitude': lats,
                            'longitude': lons})
    ds.to_netcdf(path)
    ds.close()


def run_shard(spec, rec):
    import pandas as pd

    from AEIC.config import Config
    from AEIC.trajectories.ground_track import GroundTrack
    from AEIC.types import Location
    from AEIC.weather import Weather
    from vlib import world
    from vlib.refs import isa
    from vlib.storeops import Mismatch

    hdir = Path(tempfile.mkdtemp(prefix='c16-'))
    world.load_config(hdir)

    def h_of_p(p_hpa):
        return isa.altitude(p_hpa * 100.0)

    def query(wx, t, lat, lon, alt, tas, heading, explicit):
        if explicit:
            pt = GroundTrack.Point(Location(lon, lat), (heading + 77.0) % 360)
            return wx.get_ground_speed(t, pt, alt, tas, azimuth=heading)
        pt = GroundTrack.Point(Location(lon, lat), heading)
        return wx.get_ground_speed(t, pt, alt, tas)

    pack_tol = {'step': 0.0}       # quantisation of 16-bit packed files (0 for float files)

    def judge(got, tas, heading, u, v, what, case):
        """-> 'ok' | 'finding'; raises Mismatch for an unexplained value"""
        h = math.radians(heading)
        correct = math.hypot(tas * math.sin(h) + u, tas * math.cos(h) + v)
        defect = math.hypot(tas * math.cos(h) + u, tas * math.sin(h) + v)
        tol = 1e-9 * max(1.0, abs(correct)) + 1e-9 + 2.0 * pack_tol['step']
        rec.ev()
        if not math.isfinite(got):
            raise Mismatch('ground speed not finite', {'got': got, 'check': what, **case})
        if abs(got - correct) <= tol:
            return 'ok'
        if abs(got - defect) <= tol:
            rec.finding(KF, 'the air-speed vector is built as (east, north) = TAS (cos h, '
                        'sin h) instead of TAS (sin h, cos h); pinned by '
                        'tests/test_weather.py::test_compute_ground_speed',
                        {'got': got, 'correct': correct, 'check': what, **case},
                        {'k': case.get('k'), **case})
            return 'finding'
        raise Mismatch(f'ground speed differs from |air + wind| ({what})',
                       {'got': got, 'expected': correct, 'check': what, **case})

    cwd0 = os.getcwd()
    outside = Path(tempfile.mkdtemp(prefix='c16-cwd-'))
    try:
        ks = [spec['only']] if 'only' in spec else range(spec['n'])
        for k in ks:
            rng = random.Random(f"{spec['seed']}-{k}")
            kind = rng.choice(['uniform', 'affine', 'affine', 'zero'])
            timed = rng.random() < 0.5
            fld = Field(rng, kind, timed)
            fld.masked_t = rng.random() < 0.3
            fld.lon_descending = rng.random() < 0.3
            fld.packed = rng.random() < 0.3
            fld.pack_step = 0.0
            if fld.lon_descending:
                rec.cls('file:longitude-axis-descending')
            if fld.packed:
                rec.cls('file:packed-16-bit-with-scale-and-offset')
            # an incomplete day: fewer than 24 hourly fields in the file
            fld.n_hours = rng.choice([24, 24, 24, 6, 13]) if timed else 24
            if fld.masked_t:
                rec.cls('file:unused-variable-with-missing-cells')
            # directory names a user may have: plain, URL-encoded blank, strftime-like, percent
            dname = [f'w{k}', f'ERA5%20data{k}', f'%Y%m%d_{k}', f'100%_{k}', f'w {k} b'][k % 5]
            # (one case in four: under a working directory that is NOT on the AEIC search path,
            # and given to Weather relative to it)
            d = (outside if k % 4 == 2 else hdir) / dname
            d.mkdir()
            if '%' in dname:
                rec.cls('data-dir:percent-sign-in-path')
            # calendar corners included: ISO week-year differs from the calendar year on
            # 30/31 Dec 2024 and 1-3 Jan 2027; leap day; year end
            import datetime as _dt
            base_day = rng.choice([_dt.date(2024, 3, 5), _dt.date(2024, 3, 5), _dt.date(2024, 12, 30),
                                   _dt.date(2027, 1, 1), _dt.date(2024, 2, 28),
                                   _dt.date(2021, 1, 2), _dt.date(2025, 12, 28)])
            D0, D1, D4 = (base_day + _dt.timedelta(days=o_) for o_ in (0, 1, 4))
            F0, F1, F4 = (x.strftime('%Y%m%d') for x in (D0, D1, D4))
            I0, I1, I4 = (x.isoformat() for x in (D0, D1, D4))
            if base_day.isocalendar()[0] != base_day.year or D1.isocalendar()[0] != D1.year:
                rec.cls('date:iso-week-year-differs-from-calendar-year')
            lat_lo, lat_hi, lon_lo, lon_hi, p_lo, p_hi = write_file(d / f'{F0}.nc', fld, rng)
            pack_tol['step'] = fld.pack_step
            if k % 4 == 2:
                # the data directory given relative to the current working directory
                os.chdir(outside)
                wx = Weather(Path(dname))
                rec.cls('data-dir:relative-path')
            else:
                wx = Weather(d)
            rec.cls(f'field:{kind}', 'time-axis:' + ('yes' if timed else 'no'))
            try:
                if timed and fld.n_hours < 24:
                    # an hour the file does not hold is refused, never answered with another hour
                    la_, lo_ = (lat_lo + lat_hi) / 2, (lon_lo + lon_hi) / 2
                    for hour_x in (fld.n_hours, 23, rng.randint(fld.n_hours, 23)):
                        tx = pd.Timestamp(f'{I0}T{hour_x:02d}:30:00Z')
                        rec.ev()
                        try:
                            gx = query(wx, tx, la_, lo_, h_of_p(500.0), 150.0, 45.0, True)
                            raise Mismatch('an hour that the weather file does not hold was '
                                           'answered (with another hour\'s winds) instead of '
                                           'refused', {'k': k, 'hours_in_file': fld.n_hours,
                                                       'hour': hour_x, 'got': gx})
                        except Mismatch:
                            raise
                        except Exception:  # noqa: BLE001
                            pass
                    rec.cls('file:incomplete-day:missing-hour-refused')
                for q in range(6):
                    hour = rng.randint(0, fld.n_hours - 1) if timed else rng.randint(0, 23)
                    t = pd.Timestamp(f'{I0}T{hour:02d}:{rng.randint(0, 59):02d}:00Z')
                    lat = rng.uniform(lat_lo, lat_hi)
                    lon = rng.uniform(lon_lo, lon_hi)
                    p = rng.uniform(p_lo, p_hi)
                    if rng.random() < 0.15:
                        lat, lon = rng.choice([(lat_lo, lon), (lat_hi, lon), (lat, lon_lo),
                                               (lat, lon_hi)])
                    alt = h_of_p(p)
                    tas = rng.uniform(50, 300)
                    hc = rng.random()
                    if hc < 0.25:
                        heading, hcl = rng.choice([0.0, 90.0, 180.0, 270.0]), 'cardinal'
                    elif hc < 0.4:
                        heading, hcl = rng.choice([45.0, 135.0, 225.0, 315.0]), 'diagonal'
                    else:
                        heading, hcl = rng.uniform(0, 360), 'generic'
                    explicit = rng.random() < 0.5
                    u, v = fld.uv(p, lat, lon, hour if timed else 0)
                    case = {'k': k, 'field': kind, 'timed': timed, 'hour': hour, 'lat': lat,
                            'lon': lon, 'alt': alt, 'p_hpa': p, 'tas': tas,
                            'heading': heading, 'u': u, 'v': v, 'explicit_azimuth': explicit}
                    try:
                        got = query(wx, t, lat, lon, alt, tas, heading, explicit)
                    except Exception as e:  # noqa: BLE001
                        raise Mismatch('query inside the weather domain raised',
                                       {'error': f'{type(e).__name__}: {e}', **case})
                    judge(got, tas, heading, u, v, 'vector sum', case)
                    rec.cls(f'heading:{hcl}', 'azimuth:' + ('explicit' if explicit
                                                            else 'from-track-point'))
                    W = math.hypot(u, v)
                    rec.ev()
                    slack_ = 1e-9 * tas + 2.0 * pack_tol['step']
                    if not (abs(tas - W) - slack_ <= got <= tas + W + slack_):
                        raise Mismatch('ground speed outside [|TAS-W|, TAS+W]',
                                       {'got': got, 'W': W, **case})
                    rec.cls('sub:triangle-bounds')
                    if kind == 'zero':
                        rec.ev()
                        if abs(got - tas) > 1e-9 * tas + 2.0 * pack_tol['step']:
                            raise Mismatch('no wind but ground speed != TAS',
                                           {'got': got, **case})
                        rec.cls('sub:no-wind')
                    if timed and fld.cu[4] != 0:
                        # a different hour must give the other hour's field
                        h2 = (hour + rng.randint(1, 23)) % fld.n_hours
                        t2 = pd.Timestamp(f'{I0}T{h2:02d}:30:00Z')
                        u2, v2 = fld.uv(p, lat, lon, h2)
                        got2 = query(wx, t2, lat, lon, alt, tas, 45.0, explicit)
                        judge(got2, tas, 45.0, u2, v2, 'hour selection (heading 45: '
                              'independent of the known defect)', {**case, 'hour2': h2})
                        rec.cls('sub:hour-selection')
                # ---- uniform-field sub-checks -------------------------------------------
                if kind == 'uniform' and not timed:
                    u, v = fld.uv(500, 0, 0, 0)
                    W = math.hypot(u, v)
                    wind_to = math.degrees(math.atan2(u, v)) % 360   # direction wind blows TO
                    t = pd.Timestamp(f'{I0}T10:00:00Z')
                    lat, lon, alt, tas = ((lat_lo + lat_hi) / 2, (lon_lo + lon_hi) / 2,
                                          h_of_p(500), 120.0 + W)
                    case = {'k': k, 'field': kind, 'u': u, 'v': v, 'tas': tas,
                            'wind_to_deg': wind_to}
                    got = query(wx, t, lat, lon, alt, tas, wind_to, True)
                    r = judge(got, tas, wind_to, u, v, 'pure tailwind', case)
                    rec.ev()
                    if r == 'ok' and abs(got - (tas + W)) > 1e-8 * tas + 2.0 * pack_tol['step']:
                        raise Mismatch('tailwind does not add its full speed',
                                       {'got': got, 'expected': tas + W, **case})
                    rec.cls('sub:tailwind')
                    hd = (wind_to + 180) % 360
                    got = query(wx, t, lat, lon, alt, tas, hd, True)
                    r = judge(got, tas, hd, u, v, 'pure headwind', case)
                    rec.ev()
                    if r == 'ok' and abs(got - (tas - W)) > 1e-8 * tas + 2.0 * pack_tol['step']:
                        raise Mismatch('headwind does not subtract its full speed',
                                       {'got': got, 'expected': tas - W, **case})
                    rec.cls('sub:headwind')
                    # rotation: second file with the wind rotated clockwise by delta
                    delta = rng.uniform(5, 355)
                    dr = math.radians(delta)
                    f2 = Field(rng, 'uniform', False)
                    # clockwise rotation of (east, north) by delta
                    f2.cu = (u * math.cos(dr) + v * math.sin(dr), 0, 0, 0, 0)
                    f2.cv = (-u * math.sin(dr) + v * math.cos(dr), 0, 0, 0, 0)
                    d2 = hdir / f'w{k}r'
                    d2.mkdir()
                    b2 = write_file(d2 / f'{F0}.nc', f2, rng)
                    wx2 = Weather(d2)
                    hd0 = rng.uniform(0, 360)
                    g1 = query(wx, t, lat, lon, alt, tas, hd0, True)
                    g2 = query(wx2, t, (b2[0] + b2[1]) / 2, (b2[2] + b2[3]) / 2, alt, tas,
                               (hd0 + delta) % 360, True)
                    r1 = judge(g1, tas, hd0, u, v, 'rotation (base)', case)
                    r2 = judge(g2, tas, (hd0 + delta) % 360, f2.cu[0], f2.cv[0],
                               'rotation (rotated)', {**case, 'delta': delta})
                    rec.ev()
                    if r1 == 'ok' and r2 == 'ok' and abs(g1 - g2) > 1e-8 * tas + 4.0 * pack_tol['step']:
                        raise Mismatch('ground speed changes when heading and wind are '
                                       'rotated together', {'g1': g1, 'g2': g2, **case})
                    rec.cls('sub:rotation')
                    wx2._main_ds and wx2._main_ds.close()
                # ---- one Weather object, same hour of day on two different dates -------------
                if timed:
                    fld_b = Field(rng, 'uniform', True)
                    write_file_same_grid(d / f'{F1}.nc', fld_b, lat_lo, lat_hi, lon_lo, lon_hi)
                    hour = rng.randint(0, (fld.n_hours if timed else 24) - 1)
                    la, lo_ = (lat_lo + lat_hi) / 2, (lon_lo + lon_hi) / 2
                    for day, f in ((I0, fld), (I1, fld_b), (I0, fld), (I1, fld_b)):
                        tq = pd.Timestamp(f'{day}T{hour:02d}:10:00Z')
                        uq, vq = f.uv(500.0, la, lo_, hour)
                        gq = query(wx, tq, la, lo_, h_of_p(500.0), 180.0, 45.0, True)
                        judge(gq, 180.0, 45.0, uq, vq, 'same Weather object, same hour, '
                              'different date (heading 45: independent of the known defect)',
                              {'k': k, 'day': day, 'hour': hour, 'u': uq, 'v': vq})
                    rec.cls('history:same-hour-different-date')
                # ---- one Weather object: a day whose file is missing, retried, file arrives ----
                la, lo_ = (lat_lo + lat_hi) / 2, (lon_lo + lon_hi) / 2
                hour = rng.randint(0, (fld.n_hours if timed else 24) - 1)
                t_ok = pd.Timestamp(f'{I0}T{hour:02d}:20:00Z')
                t_missing = pd.Timestamp(f'{I4}T{hour:02d}:20:00Z')
                u0, v0 = fld.uv(500.0, la, lo_, hour if timed else 0)
                g0 = query(wx, t_ok, la, lo_, h_of_p(500.0), 170.0, 45.0, True)
                judge(g0, 170.0, 45.0, u0, v0, 'before a missing day (heading 45)', {'k': k})
                for attempt in (1, 2):               # the retry must be refused as well
                    rec.ev()
                    try:
                        gm = query(wx, t_missing, la, lo_, h_of_p(500.0), 170.0, 45.0, True)
                        raise Mismatch('a day without weather file was answered (with another '
                                       'day\'s winds) instead of refused',
                                       {'k': k, 'attempt': attempt, 'got': gm,
                                        'value_for_previous_day': g0})
                    except Mismatch:
                        raise
                    except Exception:  # noqa: BLE001
                        pass
                fld_c = Field(rng, 'uniform', timed)
                write_file_same_grid(d / f'{F4}.nc', fld_c, lat_lo, lat_hi, lon_lo, lon_hi)
                uc, vc = fld_c.uv(500.0, la, lo_, hour if timed else 0)
                gc_ = query(wx, t_missing, la, lo_, h_of_p(500.0), 170.0, 45.0, True)
                judge(gc_, 170.0, 45.0, uc, vc, 'same time stamp after its weather file arrived '
                      '(heading 45)', {'k': k, 'u': uc, 'v': vc, 'previous_day_value': g0})
                g0b = query(wx, t_ok, la, lo_, h_of_p(500.0), 170.0, 45.0, True)
                judge(g0b, 170.0, 45.0, u0, v0, 'back to the first day after a failed load '
                      '(heading 45)', {'k': k})
                rec.cls('history:missing-day-retried-then-file-arrives')
                # ---- refusals outside the domain --------------------------------------------
                t = pd.Timestamp(f'{I0}T02:00:00Z')
                mid = ((lat_lo + lat_hi) / 2, (lon_lo + lon_hi) / 2, h_of_p(500.0))
                outs = [('lat', (lat_hi + rng.uniform(0.01, 20), mid[1], mid[2])),
                        ('lat', (lat_lo - rng.uniform(0.01, 20), mid[1], mid[2])),
                        ('lon', (mid[0], lon_hi + rng.uniform(0.01, 30), mid[2])),
                        ('lon', (mid[0], lon_lo - rng.uniform(0.01, 9), mid[2])),
                        ('pressure', (mid[0], mid[1], h_of_p(p_lo - rng.uniform(0.5, 60)))),
                        ('pressure', (mid[0], mid[1], max(-300.0, h_of_p(
                            p_hi + rng.uniform(0.5, 12)))))]
                for what, (la, lo, al) in outs:
                    rec.ev()
                    try:
                        g = query(wx, t, la, lo, al, 200.0, 10.0, True)
                        raise Mismatch('point outside the weather domain was not refused',
                                       {'axis': what, 'lat': la, 'lon': lo, 'alt': al,
                                        'got': g, 'domain': [lat_lo, lat_hi, lon_lo, lon_hi,
                                                             p_lo, p_hi], 'k': k})
                    except ValueError:
                        rec.cls(f'refused:{what}')
                if k < 2:
                    rec.sample({'field': kind, 'timed': timed, 'cu': fld.cu, 'cv': fld.cv,
                                'domain': [lat_lo, lat_hi, lon_lo, lon_hi, p_lo, p_hi]})
            except Mismatch as m:
                rec.violation(m.mechanism, m.detail,
                              {'spec': {'seed': spec['seed'], 'n': spec['n']}, 'k': k})
            finally:
                os.chdir(cwd0)
                if wx._main_ds is not None:
                    wx._main_ds.close()
                shutil.rmtree(d, ignore_errors=True)
                shutil.rmtree(hdir / f'w{k}r', ignore_errors=True)
    finally:
        Config.reset()
        shutil.rmtree(hdir, ignore_errors=True)
        shutil.rmtree(outside, ignore_errors=True)
