"""C20 — trajectory stores are confined to one thread under every interleaving.

S4: a deterministic line-level scheduler (sys.monitoring LINE events on
TrajectoryStore.__init__) drives two threads that each create their first
store; every interleaving of the two guard regions is executed, plus random
schedules over the whole constructor, an untraced stress run and the
sequential orders.
"""

from __future__ import annotations

import itertools
import random
import sys
import threading
import time

ID = 'C20'
LEVEL = 'exploration'
EXHAUSTIVE = True
RULE = ('two threads race to create their first (in-memory) store under a controller that '
        'releases one thread per executed source line of TrajectoryStore.__init__; the '
        'guard region (line events up to and including the assignment of the owner) is '
        'discovered by a calibration run and ALL C(2k,k) interleavings of the two guard '
        'regions are executed (exhaustive over that space), plus random schedule words over '
        'the whole constructor, a bytecode-level sweep (thread A stopped after its i-th instruction of the constructor for every i in the guard region while B runs), an untraced barrier-start stress run and the sequential '
        'orders (second thread after creation / after close / after failing opens by the owner / after the owning thread has terminated); oracle: exactly one thread '
        'succeeds and a non-owner is always refused; a class is an outcome per schedule '
        'prefix shape')
ASSUMPTIONS = [
    'full interleaving enumeration is line-level (statement start); bytecode level is covered '
    'for schedules with a single pre-emption of either thread inside the guard region',
    'a thread that does not reach its next line within 50 ms is treated as blocked on a '
    'lock and its turn passes on (only changes which interleaving is run)',
    'the class-level owner record is reset between schedules inside this process; the '
    'first schedule of every shard runs in a genuinely fresh process',
    'threads are kept alive until both attempts finished (thread identifiers are not '
    'reused within a schedule)',
]
SHARD_TIMEOUT = {'quick': 600, 'thorough': 3600}
LEVEL_TEXT = ('Exploration with an exhaustive core: all line-level interleavings of the two '
              'guard regions are executed on the real constructor by a deterministic '
              'scheduler, plus random whole-constructor schedules and stress runs.')
LEVEL_NOTE = 'CPython line granularity; GIL; in-memory stores only (no file I/O in the race).'
TECHNIQUE = 'trace-driven deterministic two-thread scheduler (sys.monitoring LINE events)'

TOOL = 4
STALL = 0.05


def plan(tier, seed):
    n_shards = 8
    rnd = 60 if tier == 'quick' else 1000
    stress = 300 if tier == 'quick' else 20000
    return [{'seed': seed * 1000 + i, 'part': i, 'of': n_shards, 'random': rnd,
             'stress': stress} for i in range(n_shards)]


def required(tier):
    return {'classes': ['sequential:other-thread-after-create:refused',
                        'sequential:other-thread-after-close:refused',
                        'sequential:other-thread-after-owner-failed-open:refused',
                        'sequential:other-thread-after-subclass-create:refused',
                        'sequential:other-thread-after-owner-thread-exited:refused',
                        'guard-interleaving:one-ok-one-refused'],
            'counters': {'guard_interleavings_run': 1, 'random_schedules_run': 100,
                         'stress_rounds': 100, 'instruction_preemption_points_run': 10},
            'evaluations': 100}


def finalize(agg):
    c = agg['counters']
    # every shard must have found the same guard-region size, and the union of the
    # shards must cover all C(2k,k) words
    if c.get('guard_words_total_sum', 0) and c.get('guard_interleavings_run', 0) != \
            c.get('guard_words_total_sum', 0) // max(1, c.get('shards_reporting', 1)):
        agg['inconclusive'].append(
            f"guard-region enumeration incomplete: ran {c.get('guard_interleavings_run')} "
            f"of {c.get('guard_words_total_sum', 0) // max(1, c.get('shards_reporting', 1))}")


def evidence_extra(agg):
    c = agg['counters']
    n = max(1, c.get('shards_reporting', 1))
    return {'guard_region_line_events': c.get('guard_k_sum', 0) // n,
            'guard_interleavings_total': c.get('guard_words_total_sum', 0) // n,
            'guard_interleavings_run': c.get('guard_interleavings_run', 0),
            'blocked_turns': c.get('blocked_turns', 0),
            'distinct_executed_interleavings_summed_over_shards':
                c.get('distinct_executed_interleavings', 0)}


class Scheduler:
    def __init__(self, Store):
        self.Store = Store
        self.code = Store.__init__.__code__
        self.mon = sys.monitoring
        self.tls = threading.local()
        self.active = False
        try:
            self.mon.use_tool_id(TOOL, 'aeic-verif-sched')
        except ValueError:
            self.mon.free_tool_id(TOOL)
            self.mon.use_tool_id(TOOL, 'aeic-verif-sched')
        self.mon.register_callback(TOOL, self.mon.events.LINE, self._on_line)
        self.mon.set_local_events(TOOL, self.code, self.mon.events.LINE)

    def shutdown(self):
        self.mon.set_local_events(TOOL, self.code, 0)
        self.mon.register_callback(TOOL, self.mon.events.LINE, None)
        self.mon.free_tool_id(TOOL)

    # -- callback, runs in the racing threads --------------------------------
    def _on_line(self, code, line):
        name = getattr(self.tls, 'name', None)
        if name is None or not self.active:
            return
        self.trace[name].append((line, self.Store.active_in_thread is not None))
        if self.free.is_set():
            return
        self.arrived[name].set()
        while True:
            if self.free.is_set():
                return
            if self.go[name].acquire(timeout=0.005):
                return

    def _body(self, name):
        self.tls.name = name
        try:
            st = self.Store.create()
            self.out[name] = 'ok'
            self.stores.append(st)
        except RuntimeError as e:
            self.out[name] = 'refused' if 'thread' in str(e).lower() else \
                f'error:RuntimeError:{e}'
        except BaseException as e:  # noqa: BLE001
            self.out[name] = f'error:{type(e).__name__}:{e}'
        finally:
            self.tls.name = None
            self.done[name].set()
        self.keep.wait(10)

    def _wait(self, name, timeout):
        """until thread is parked at a line or finished; False = stalled (blocked)"""
        end = time.monotonic() + timeout
        while time.monotonic() < end:
            if self.arrived[name].is_set() or self.done[name].is_set():
                return True
            time.sleep(0.0003)
        return self.arrived[name].is_set() or self.done[name].is_set()

    def run(self, word: str):
        """Execute one schedule word over {A,B}; afterwards both run freely."""
        self.Store.active_in_thread = None
        self.trace = {'A': [], 'B': []}
        self.out = {}
        self.stores = []
        self.arrived = {n: threading.Event() for n in 'AB'}
        self.done = {n: threading.Event() for n in 'AB'}
        self.go = {n: threading.Semaphore(0) for n in 'AB'}
        self.free = threading.Event()
        self.keep = threading.Event()
        self.active = True
        blocked = 0
        executed = []
        ths = [threading.Thread(target=self._body, args=(n,), daemon=True) for n in 'AB']
        for t in ths:
            t.start()
        for letter in word:
            if not self._wait(letter, STALL):
                blocked += 1                     # blocked inside a line (lock): skip turn
                continue
            if self.done[letter].is_set():
                continue
            self.arrived[letter].clear()
            self.go[letter].release()
            executed.append(letter)
            self._wait(letter, STALL)
        self.free.set()
        ok = all(self.done[n].wait(10) for n in 'AB')
        self.keep.set()
        for t in ths:
            t.join(10)
        self.active = False
        for st in self.stores:
            try:
                st.close()
            except Exception:  # noqa: BLE001
                pass
        return {'finished': ok, 'out': dict(self.out), 'blocked': blocked,
                'executed': ''.join(executed), 'trace': self.trace}


def run_shard(spec, rec):
    from AEIC.trajectories import TrajectoryStore as Store

    rng = random.Random(spec['seed'])
    case0 = {'spec': {k: spec[k] for k in ('seed', 'part', 'of', 'random', 'stress')}}

    # ---- sequential orders (fresh process: nothing has created a store yet) --------
    if 'only' not in spec:
        sequential(Store, rec, case0)

    if str(spec.get('only', '')).startswith('instr-'):
        instruction_sweep(Store, rec, case0, spec)
        return
    sch = Scheduler(Store)
    try:
        # ---- calibration: one thread alone ----------------------------------------------
        Store.active_in_thread = None
        r = sch.run('A' * 400)           # B runs freely afterwards; look at A's trace only
        tr = r['trace']['A']
        k = next((i for i, (_, owned) in enumerate(tr) if owned), None)
        total = len(tr)
        if k is None or k == 0 or total < k:
            rec.inconc(f'calibration could not find the guard region (trace {tr[:12]})')
            return
        rec.count('guard_k_sum', k)
        rec.count('shards_reporting')
        words = [''.join('A' if i in pos else 'B' for i in range(2 * k))
                 for pos in itertools.combinations(range(2 * k), k)]
        rec.count('guard_words_total_sum', len(words))
        rec.sample({'guard_region_line_events': k, 'constructor_line_events': total,
                    'guard_lines': [ln for ln, _ in tr[:k]],
                    'guard_words': len(words), 'example_word': words[len(words) // 2]})

        seen_exec = set()

        def judge(word, r, kind):
            rec.ev()
            if r['executed'] not in seen_exec:
                seen_exec.add(r['executed'])
                rec.count('distinct_executed_interleavings')
            out = r['out']
            rec.count('blocked_turns', r['blocked'])
            case = {**case0, 'word': word, 'kind': kind, 'k': word}
            if not r['finished']:
                rec.inconc(f'schedule {word} did not finish (both threads blocked?)')
                return
            vals = sorted(out.values())
            if vals == ['ok', 'refused']:
                rec.cls(f'{kind}:one-ok-one-refused')
                if r['blocked']:
                    rec.cls(f'{kind}:one-ok-one-refused:with-blocked-turns')
            elif vals == ['ok', 'ok']:
                rec.violation('both racing threads created a store',
                              {'word': word, 'executed': r['executed'], 'outcomes': out,
                               'trace_A': r['trace']['A'][:8], 'trace_B': r['trace']['B'][:8]},
                              case)
            elif vals == ['refused', 'refused']:
                rec.violation('both racing threads were refused (no owner)',
                              {'word': word, 'outcomes': out}, case)
            else:
                rec.violation('store creation failed with an unrelated error in the race',
                              {'word': word, 'outcomes': out}, case)

        if 'only' in spec:
            w = spec['only']
            judge(w, sch.run(w), 'replay')
            return
        # ---- all interleavings of the two guard regions (split over shards) -------
        for i, w in enumerate(words):
            if i % spec['of'] != spec['part']:
                continue
            judge(w, sch.run(w), 'guard-interleaving')
            rec.count('guard_interleavings_run')
        # ---- random schedules over the whole constructor --------------------------
        for _ in range(spec['random']):
            n = rng.randint(2, 2 * total)
            bias = rng.random()
            w = ''.join('A' if rng.random() < bias else 'B' for _ in range(n))
            judge(w, sch.run(w), 'random-schedule')
            rec.count('random_schedules_run')
    finally:
        sch.shutdown()
    # ---- untraced stress: barrier start, tiny switch interval ------------------------
    old = sys.getswitchinterval()
    sys.setswitchinterval(1e-6)
    try:
        for i in range(spec['stress']):
            Store.active_in_thread = None
            out, stores = {}, []
            bar = threading.Barrier(2)
            keep = threading.Event()

            def body(name):
                bar.wait()
                try:
                    stores.append(Store.create())
                    out[name] = 'ok'
                except RuntimeError:
                    out[name] = 'refused'
                keep.wait(5)
            ths = [threading.Thread(target=body, args=(n,), daemon=True) for n in 'AB']
            for t in ths:
                t.start()
            while len(out) < 2 and any(t.is_alive() for t in ths):
                time.sleep(0.0002)
            keep.set()
            for t in ths:
                t.join(5)
            for st in stores:
                st.close()
            rec.ev()
            rec.count('stress_rounds')
            if sorted(out.values()) == ['ok', 'ok']:
                rec.violation('both racing threads created a store',
                              {'kind': 'untraced stress', 'round': i}, case0)
            elif sorted(out.values()) == ['ok', 'refused']:
                rec.cls('stress:one-ok-one-refused')
            else:
                rec.violation('unexpected outcome in stress race', {'outcomes': out}, case0)
    finally:
        sys.setswitchinterval(old)
        Store.active_in_thread = None
    instruction_sweep(Store, rec, case0, spec)


def instruction_sweep(Store, rec, case0, spec):
    """Bytecode-level pre-emption: thread A is stopped after its i-th executed instruction of
    the constructor, thread B then runs its whole attempt (unless it blocks on a lock A
    holds - then A is let go), then A resumes.  Every i up to the end of A's guard region is
    run, with either thread as the pre-empted one: exhaustive over schedules with ONE
    context switch inside a source line, which line-level scheduling cannot produce."""
    mon = sys.monitoring
    TOOL2 = 3
    code = Store.__init__.__code__
    tls = threading.local()
    st = {'target': None, 'count': 0, 'reached': threading.Event(),
          'resume': threading.Event(), 'owner_set_at': None}

    def on_instr(c, offset):
        if getattr(tls, 'name', None) != 'A':
            return
        st['count'] += 1
        if st['owner_set_at'] is None and Store.active_in_thread is not None:
            st['owner_set_at'] = st['count']
        if st['target'] is not None and st['count'] == st['target']:
            st['reached'].set()
            st['resume'].wait(5)
    try:
        mon.use_tool_id(TOOL2, 'aeic-verif-instr')
    except ValueError:
        mon.free_tool_id(TOOL2)
        mon.use_tool_id(TOOL2, 'aeic-verif-instr')
    mon.register_callback(TOOL2, mon.events.INSTRUCTION, on_instr)
    mon.set_local_events(TOOL2, code, mon.events.INSTRUCTION)
    try:
        def attempt(name, out, stores, keep):
            tls.name = name
            try:
                stores.append(Store.create())
                out[name] = 'ok'
            except RuntimeError:
                out[name] = 'refused'
            except Exception as e:  # noqa: BLE001
                out[name] = f'error:{type(e).__name__}'
            finally:
                tls.name = None
            keep.wait(10)

        def run(target):
            Store.active_in_thread = None
            st.update(target=target, count=0, owner_set_at=None)
            st['reached'].clear()
            st['resume'].clear()
            out, stores, keep = {}, [], threading.Event()
            ta = threading.Thread(target=attempt, args=('A', out, stores, keep), daemon=True)
            tb = threading.Thread(target=attempt, args=('B', out, stores, keep), daemon=True)
            ta.start()
            stopped = st['reached'].wait(2) if target is not None else False
            if target is None:
                while 'A' not in out and ta.is_alive():
                    time.sleep(0.0005)
            tb.start()
            t0 = time.time()
            while 'B' not in out and time.time() - t0 < 0.05:     # B blocked on A's lock?
                time.sleep(0.0005)
            b_blocked = 'B' not in out
            st['resume'].set()
            t0 = time.time()
            while len(out) < 2 and time.time() - t0 < 10:
                time.sleep(0.0005)
            keep.set()
            ta.join(10)
            tb.join(10)
            for s_ in stores:
                try:
                    s_.close()
                except Exception:  # noqa: BLE001
                    pass
            return out, stopped, b_blocked, st['count'], st['owner_set_at']

        out, _, _, n_instr, owner_at = run(None)            # calibration: A alone first
        if owner_at is None or n_instr < 5:
            rec.inconc(f'instruction-level calibration failed (instructions={n_instr}, '
                       f'owner set at {owner_at})')
            return
        rec.count('guard_region_instructions', owner_at)
        last = min(n_instr, owner_at + 6)
        for i in range(1, last + 1):
            if 'only' in spec:
                if f'instr-{i}' != spec['only']:
                    continue
            elif i % spec['of'] != spec['part']:
                continue
            out, stopped, b_blocked, _, _ = run(i)
            rec.ev()
            rec.count('instruction_preemption_points_run')
            vals = sorted(out.values())
            case = {**case0, 'kind': 'instruction-preemption', 'k': f'instr-{i}'}
            if len(out) < 2:
                rec.inconc(f'instruction pre-emption at {i}: a thread did not finish')
            elif vals == ['ok', 'refused']:
                rec.cls('instruction-preemption:one-ok-one-refused')
                if b_blocked:
                    rec.cls('instruction-preemption:second-thread-waited-for-the-lock')
            elif vals == ['ok', 'ok']:
                rec.violation('both racing threads created a store',
                              {'kind': 'thread A pre-empted after its i-th bytecode instruction '
                                       'of the constructor, B ran meanwhile', 'i': i,
                               'owner_assigned_at_instruction': owner_at, 'outcomes': out}, case)
            else:
                rec.violation('unexpected outcome in the instruction-level race',
                              {'i': i, 'outcomes': out}, case)
    finally:
        mon.set_local_events(TOOL2, code, 0)
        mon.register_callback(TOOL2, mon.events.INSTRUCTION, None)
        mon.free_tool_id(TOOL2)
        Store.active_in_thread = None


def sequential(Store, rec, case0):
    """A thread other than the owner is refused, also after the owner closed."""
    res = {}

    def other(tag):
        try:
            Store.create().close()
            res[tag] = 'ok'
        except RuntimeError:
            res[tag] = 'refused'
        except Exception as e:  # noqa: BLE001
            res[tag] = f'error:{type(e).__name__}'

    def run_other(tag):
        t = threading.Thread(target=other, args=(tag,))
        t.start()
        t.join()

    st = Store.create()
    run_other('after-create')
    st2 = Store.create()            # the owner itself may create more stores
    st2.close()
    # failing constructor calls by the owner must not release the confinement
    import tempfile
    from pathlib import Path
    d = Path(tempfile.mkdtemp(prefix='c20-'))
    junk = d / 'not-netcdf.nc'
    junk.write_bytes(b'this is not a NetCDF file' * 20)
    failed = []
    for i, fn in enumerate((
            lambda: Store.open(base_file=junk), lambda: Store.append(base_file=junk),
            lambda: Store.open(), lambda: Store.open(base_file=d / 'missing.nc'),
            lambda: Store.create(title=1, base_file=None, associated_files=[('x', ['y'])]))):
        try:
            fn().close()
        except Exception:  # noqa: BLE001
            pass
        run_other(f'after-owner-failed-open#{i}')      # after EACH failing call
        failed.append(res.get(f'after-owner-failed-open#{i}'))
    res['after-owner-failed-open'] = 'refused' if all(x == 'refused' for x in failed) \
        else f'outcomes per failing call: {failed}'
    st.close()
    run_other('after-close')
    import shutil
    shutil.rmtree(d, ignore_errors=True)
    # first store of the process is an instance of a subclass
    class SubStore(Store):
        pass
    Store.active_in_thread = None
    for c in (SubStore,):
        if 'active_in_thread' in c.__dict__:
            delattr(c, 'active_in_thread')
    sub = SubStore.create()
    run_other('after-subclass-create')
    sub.close()
    if 'active_in_thread' in SubStore.__dict__:
        delattr(SubStore, 'active_in_thread')
    Store.active_in_thread = None
    # the owner is a worker thread that has already terminated: this (main) thread is a
    # different, still-living thread (its identifier cannot have been recycled) -> refused
    run_other('owner-is-worker')
    if res.get('owner-is-worker') == 'ok':
        try:
            Store.create().close()
            res['after-owner-thread-exited'] = 'ok'
        except RuntimeError:
            res['after-owner-thread-exited'] = 'refused'
        except Exception as e:  # noqa: BLE001
            res['after-owner-thread-exited'] = f'error:{type(e).__name__}'
    else:
        res['after-owner-thread-exited'] = f"worker could not create: {res.get('owner-is-worker')}"
    Store.active_in_thread = None
    for tag in ('after-create', 'after-owner-failed-open', 'after-close',
                'after-subclass-create', 'after-owner-thread-exited'):
        rec.ev()
        if res.get(tag) != 'refused':
            rec.violation(f'a second thread created a store {tag} by the owner thread',
                          {'outcome': res.get(tag)}, case0)
        else:
            rec.cls(f'sequential:other-thread-{tag}:refused')
