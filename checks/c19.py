"""C19 — BADA-3 fuel-burn integration keeps mass, thrust and fuel flow consistent.

S3: the four iterate_flight_simulation_* methods and calculate_thrust /
calculate_specific_ground_range of the real Bada3FuelBurnModel, built with the
library's own Bada3AircraftParameters, against independent scalar BADA 3.x
equations (vlib/refs/bada3.py); the specific-ground-range method is wrapped so
the checker sees the last evaluation the returned mass vector was integrated
from.
"""

from __future__ import annotations

import math
import random

ID = 'C19'
LEVEL = 'exploration'
RULE = ('generated plausible parameter sets for Jet / Turboprop / Piston engines (built with '
        'Bada3AircraftParameters) x generated flight profiles (climb/cruise/descent mixes, '
        'accelerations, cruise flags given as bool / 0-1 integer / 0.-1. float arrays, ISA +-20 K, wind, one scalar segment length or one length per segment incl. zero, 3-200 points) x '
        'prescribed initial / final masses x n_iter 1-10 x the four iteration modes; oracle: '
        'first (last) element = prescribed mass, profile non-increasing, m = m0 - cumulative '
        'trapezoid of 1/SGR_last with SGR_last the last recorded evaluation (mirrored for the '
        'backward mode), every recorded SGR / thrust / fuel flow equals the independent scalar '
        'BADA 3.x equations at the recorded mass (rel 1e-9), fuel-dependent modes: max(m) <= '
        'MTOM and m0 = min(OEW + MPL*LF + burn (+reserve), MTOM); input arrays unmodified; class = (engine type, mode, '
        'thrust branch reached, n_iter)')
ASSUMPTIONS = [
    'BADA 3.x user-manual equations with their units (piston C_f1 in kg/min) are the reference; '
    'knots are converted with the library\'s documented constant 0.514444 m/s',
    'profiles are physically plausible (positive speeds, altitudes below the thrust zero, '
    'total-energy thrust mostly positive); segment length is a scalar',
]
SHARD_TIMEOUT = {'quick': 600, 'thorough': 3600}
LEVEL_TEXT = ('Exploration: differential runtime check of the real BADA-3 model against '
              'independent scalar equations, with the internal specific-ground-range '
              'evaluations recorded by a wrapper.')
LEVEL_NOTE = 'My reading of the BADA 3.x manual is part of the trusted base; tolerance rel 1e-9.'
TECHNIQUE = 'differential oracle (independent scalar BADA-3 equations) + recorded-call integration check'

MODES = ['constant_initial', 'constant_final', 'rf_fraction', 'rf_value']


def plan(tier, seed):
    per = 100 if tier == 'quick' else 4000
    return [{'seed': seed * 1000 + i, 'n': per} for i in range(16)]


def required(tier):
    cl = [f'engine:{e}' for e in ('Jet', 'Turboprop', 'Piston')] + [f'mode:{m}' for m in MODES]
    cl += ['thrust:total-energy', 'thrust:capped-by-max-climb', 'thrust:capped-by-max-cruise',
           'thrust:descent-high', 'thrust:descent-low', 'cruise-flag:mixed', 'temperature:hot',
           'mtom:binding', 'mtom:not-binding', 'profile:monotone-checked',
           'cruise-flag-type:bool', 'cruise-flag-type:int', 'cruise-flag-type:float',
           'segment-distance:scalar', 'segment-distance:per-segment:constant_final',
           'segment-distance:per-segment:constant_initial', 'altitude:below-sea-level',
           'segment-distance:per-segment-sequence:constant_final', 'temperature:library-ISA-exactly',
           'profile:more-than-257-points:per-segment:constant_final',
           'model:second-flight:Turboprop', 'model:second-flight:Piston',
           'model:second-flight:Jet']
    return {'classes': cl, 'evaluations': 1000}


def gen_params(rng):
    et = rng.choice(['Jet', 'Jet', 'Turboprop', 'Piston'])
    p = dict(engine_type=et, S_ref=rng.uniform(20, 500), c_d0cr=rng.uniform(0.015, 0.035),
             c_d2cr=rng.uniform(0.025, 0.07), c_tc4=rng.uniform(-5, 12),
             c_tc5=rng.choice([rng.uniform(0.002, 0.012), 0.0, -0.001]),
             c_tcr=rng.choice([0.95, rng.uniform(0.85, 1.0)]),
             c_tdes_low=rng.uniform(0.02, 0.2), c_tdes_high=rng.uniform(0.02, 0.2),
             h_p_des=rng.uniform(3000, 20000), c_tdes_app=0.15, c_tdes_ld=0.3,
             c_fcr=rng.uniform(0.85, 1.05))
    if et == 'Jet':
        p.update(c_tc1=rng.uniform(8e4, 6e5), c_tc2=rng.uniform(4.2e4, 7e4),
                 c_tc3=rng.uniform(1e-11, 1.5e-10), c_f1=rng.uniform(0.3, 1.2),
                 c_f2=rng.uniform(300, 3000))
        p['ref_mass'] = rng.uniform(40e3, 300e3)
    elif et == 'Turboprop':
        p.update(c_tc1=rng.uniform(2e6, 1.5e7), c_tc2=rng.uniform(3e4, 6e4),
                 c_tc3=rng.uniform(0, 3000), c_f1=rng.uniform(0.1, 0.6),
                 c_f2=rng.uniform(350, 1500))
        p['ref_mass'] = rng.uniform(8e3, 40e3)
        p['S_ref'] = rng.uniform(30, 120)
    else:
        p.update(c_tc1=rng.uniform(3e3, 2e4), c_tc2=rng.uniform(1.5e4, 4e4),
                 c_tc3=rng.uniform(0, 1e4), c_f1=rng.uniform(0.3, 3.0), c_f2=1.0)
        p['ref_mass'] = rng.uniform(800, 4000)
        p['S_ref'] = rng.uniform(10, 40)
    return p


def gen_profile(rng, p):
    import numpy as np
    from vlib.refs import isa

    n = rng.choice([3, 5, 10, 40, 120, 200, 258, 300, 700])
    # airfield elevation: usually around sea level, sometimes below it (Dead Sea, Death Valley)
    field = rng.choice([300.0, 300.0, 0.0, rng.uniform(-420.0, -1.0), rng.uniform(0.0, 2500.0)])
    top = {'Jet': rng.uniform(6000, 12500), 'Turboprop': rng.uniform(3000, 8000),
           'Piston': rng.uniform(1000, 4000)}[p['engine_type']]
    vcr = {'Jet': rng.uniform(180, 250), 'Turboprop': rng.uniform(90, 160),
           'Piston': rng.uniform(40, 80)}[p['engine_type']]
    nc = rng.randint(0, n // 2)
    nd = rng.randint(0, n - nc)
    alt, v, rocd, cruise = [], [], [], []
    for i in range(n):
        if i < nc:
            f = i / max(1, nc)
            alt.append(field + (top - field) * f)
            v.append(vcr * (0.55 + 0.45 * f))
            rocd.append(rng.uniform(2, 18) * (0.3 if p['engine_type'] != 'Jet' else 1))
            cruise.append(False)
        elif i < n - nd:
            alt.append(top)
            v.append(vcr)
            rocd.append(0.0)
            cruise.append(rng.random() < 0.9)
        else:
            f = (i - (n - nd) + 1) / max(1, nd)
            alt.append(top - (top - field) * f)
            v.append(vcr * (1.0 - 0.45 * f))
            rocd.append(-rng.uniform(2, 25) * (0.3 if p['engine_type'] != 'Jet' else 1))
            cruise.append(False)
    alt = np.array(alt)
    v = np.array(v)
    acc = np.array([rng.choice([0.0, rng.uniform(-0.3, 0.5)]) for _ in range(n)])
    dT = rng.choice([0.0, rng.uniform(-20, 20), rng.uniform(10, 35)])
    T = np.array([isa.temperature(float(a)) + dT for a in alt])
    if dT == 0.0:
        # a standard day, built the way callers build it: with the library's own ISA function
        # (bit-exact zero deviation at every point)
        from AEIC.utils.standard_atmosphere import temperature_at_altitude_isa_bada4
        T = np.asarray(temperature_at_altitude_isa_bada4(alt), float).copy()
    gs = v + np.array([rng.uniform(-30, 30) for _ in range(n)]) * (0.3 if vcr < 100 else 1)
    gs = np.maximum(gs, 10.0)
    dx = rng.uniform(2e3, 6e4) * (0.2 if p['engine_type'] == 'Piston' else 1)
    dx_kind = 'scalar'
    if rng.random() < 0.35:             # one length per segment (documented: float or array)
        dx = np.array([dx * rng.choice([rng.uniform(0.05, 3.0), 1.0, 0.0 if rng.random() < 0.1
                                        else 0.5]) for _ in range(n - 1)])
        dx_kind = 'per-segment'
        if rng.random() < 0.4:      # a plain Python sequence instead of an array
            dx = rng.choice([list, tuple])(float(x) for x in dx)
            dx_kind = 'per-segment-sequence'
    # the cruise flag is documented as "float or array": booleans, 0/1 integers, 0./1. floats
    flag_kind = rng.choice(['bool', 'bool', 'int', 'float'])
    flags = np.array(cruise).astype({'bool': bool, 'int': np.int64, 'float': float}[flag_kind])
    return dict(temperature=T, altitude=alt, v_tas=v, rocd=np.array(rocd), acceleration=acc,
                in_cruise=flags, groundspeed=gs, segment_distance=dx), \
        {'n': n, 'dT': dT, 'hot': dT > p['c_tc4'] + 1 and p['c_tc5'] > 0,
         'mixed_cruise': 0 < sum(cruise) < n, 'flags': flag_kind, 'dx_kind': dx_kind,
         'field_elevation': field}


def run_shard(spec, rec):
    import numpy as np

    from AEIC.BADA.aircraft_parameters import Bada3AircraftParameters
    from AEIC.BADA.model import Bada3FuelBurnModel
    from vlib.refs import bada3 as B
    from vlib.storeops import Mismatch

    def rel(a, b, tol=1e-9):
        return abs(a - b) <= tol * max(abs(a), abs(b)) + 1e-12

    def conditioning(m_arg, prof, i, br):
        """Relative tolerance for point i, or None where the point cannot be judged.  The
        total-energy thrust is a SUM of terms of either sign: where they cancel (a descent in
        which drag balances the energy rates) the sum - and with it the branch taken at
        thrust = 0 - is determined only up to a few ulps of the terms."""
        te, scale = B.total_energy_terms(
            p, float(m_arg[i]), float(prof['temperature'][i]), float(prof['altitude'][i]),
            float(prof['v_tas'][i]), float(prof['rocd'][i]), float(prof['acceleration'][i]))
        noise = 64 * 2.2e-16 * scale
        if abs(te) <= noise:
            rec.cls('thrust:cancellation-below-resolution')
            return None
        tol = 1e-9 + (noise / abs(te) if br == 'total-energy' else 0.0)
        if tol > 1e-4:
            rec.cls('thrust:cancellation-below-resolution')
            return None
        return tol

    ks = [spec['only']] if 'only' in spec else range(spec['n'])
    for k in ks:
        rng = random.Random(f"{spec['seed']}-{k}")
        case = {'spec': {'seed': spec['seed'], 'n': spec['n']}, 'k': k}
        p = gen_params(rng)
        prof, pd_ = gen_profile(rng, p)
        mode = MODES[k % 4] if rng.random() < 0.8 else rng.choice(MODES)
        n_iter = rng.randint(1, 10)
        second_use = random.Random(f'second-{spec["seed"]}-{k}').random() < 0.35
        desc = {'engine': p['engine_type'], 'mode': mode, 'n_iter': n_iter, **pd_,
                'segment_distance': (prof['segment_distance'] if pd_['dx_kind'] == 'scalar'
                                     else list(prof['segment_distance'][:8]))}
        inputs_before = {kk: np.array(vv, copy=True) for kk, vv in prof.items()}
        try:
            ap = Bada3AircraftParameters()
            ap.assign_parameters_fromdict(dict(p, ac_type='HRN', max_mass=p['ref_mass'] * 1.2,
                                               min_mass=p['ref_mass'] * 0.6))
            try:
                model = Bada3FuelBurnModel(ap)
            except Exception as e:  # noqa: BLE001
                raise Mismatch('building the model from the library\'s own parameter object '
                               'raised', {'error': f'{type(e).__name__}: {e}', **desc})
            calls = []
            orig = model.calculate_specific_ground_range

            def recording(mass, *a, **kw):
                r = orig(mass, *a, **kw)
                calls.append((np.array(mass, float, copy=True), np.array(r, float, copy=True)))
                return r
            model.calculate_specific_ground_range = recording
            m_ref = p['ref_mass']
            kwargs = dict(prof)
            mtow, oew, mpl = m_ref * 1.15, m_ref * 0.55, m_ref * 0.25
            lf = rng.random()
            if mode == 'constant_initial':
                m0 = m_ref * rng.uniform(0.7, 1.15)
                call = lambda: model.iterate_flight_simulation_constant_initial_mass(  # noqa: E731
                    **kwargs, initial_mass=m0, n_iter=n_iter)
            elif mode == 'constant_final':
                m0 = m_ref * rng.uniform(0.6, 1.0)
                call = lambda: model.iterate_flight_simulation_constant_final_mass(  # noqa: E731
                    **kwargs, final_mass=m0, n_iter=n_iter)
            elif mode == 'rf_fraction':
                m0 = m_ref * rng.uniform(0.7, 1.2)
                rf = rng.uniform(0.0, 0.3)
                call = lambda: (  # noqa: E731
                    model.iterate_flight_simulation_fuel_burn_dependent_initial_mass_rf_fraction(
                        **kwargs, initial_mass_estimate=m0, mtow=mtow, oew=oew, mpl=mpl,
                        load_factor=lf, reserve_fuel_fraction=rf, n_iter=n_iter))
            else:
                m0 = m_ref * rng.uniform(0.7, 1.2)
                rf = rng.uniform(0.0, 0.05) * m_ref
                call = lambda: (  # noqa: E731
                    model.iterate_flight_simulation_fuel_burn_dependent_initial_mass_rf_value(
                        **kwargs, initial_mass_estimate=m0, mtow=mtow, oew=oew, mpl=mpl,
                        load_factor=lf, reserve_fuel=rf, n_iter=n_iter))
            rec.ev()
            try:
                mass = np.asarray(call(), float)
            except Exception as e:  # noqa: BLE001
                import traceback
                tb = traceback.extract_tb(e.__traceback__)[-1]
                raise Mismatch(f'the fuel-burn model raised {type(e).__name__} for a plausible '
                               'flight', {'error': f'{type(e).__name__}: {str(e)[:200]}',
                                          'where': f'{tb.name}:{tb.lineno}', **desc})
            n = len(mass)
            if n != pd_['n'] or not np.all(np.isfinite(mass)):
                raise Mismatch('mass profile has the wrong length or non-finite values',
                               {'n': n, **desc})
            if not calls:
                rec.inconc('specific ground range was never evaluated through the wrapper')
                continue
            # ---- every recorded SGR equals the independent equations at the recorded mass ----
            branches = set()
            for (m_arg, sgr) in (calls[0], calls[-1]):
                for i in range(n):
                    e_sgr, e_thr, e_ff, br = B.specific_ground_range(
                        p, float(m_arg[i]), float(prof['temperature'][i]),
                        float(prof['altitude'][i]), float(prof['v_tas'][i]),
                        float(prof['rocd'][i]), float(prof['acceleration'][i]),
                        bool(prof['in_cruise'][i]), float(prof['groundspeed'][i]))
                    branches.add(br)
                    rec.ev()
                    cond_tol = conditioning(m_arg, prof, i, br)
                    if cond_tol is None:
                        continue
                    if not rel(float(sgr[i]), e_sgr, cond_tol):
                        # locate the disagreement: thrust or fuel flow?
                        thr = float(np.asarray(model.calculate_thrust(
                            m_arg[i:i + 1], prof['temperature'][i:i + 1],
                            prof['altitude'][i:i + 1], prof['v_tas'][i:i + 1],
                            prof['rocd'][i:i + 1], prof['acceleration'][i:i + 1],
                            prof['in_cruise'][i:i + 1]))[0])
                        what = ('thrust differs from the BADA-3 total-energy / limit equations'
                                if not rel(thr, e_thr, cond_tol) else
                                f'{p["engine_type"].lower()} fuel flow differs from the BADA-3 '
                                'equation' + (' (cruise correction)' if prof['in_cruise'][i]
                                              else ''))
                        raise Mismatch(what, {'point': i, 'sgr': float(sgr[i]),
                                              'expected_sgr': e_sgr, 'thrust': thr,
                                              'expected_thrust': e_thr,
                                              'expected_fuel_flow': e_ff, 'branch': br,
                                              'groundspeed': float(prof['groundspeed'][i]),
                                              **desc})
            # ---- second use of the SAME model object: the same altitudes and temperatures flown
            # at other speeds (another speed schedule for the same vertical profile) -------------
            if second_use:
                first_calls = list(calls)
                f_ = rng.uniform(0.75, 1.25)
                prof2 = dict(prof)
                prof2['v_tas'] = np.asarray(prof['v_tas'], float) * f_
                prof2['groundspeed'] = np.asarray(prof['groundspeed'], float) * f_
                kwargs.clear()
                kwargs.update(prof2)
                del calls[:]
                try:
                    call()
                except Exception as e:  # noqa: BLE001
                    raise Mismatch(f'the fuel-burn model raised {type(e).__name__} when the same '
                                   'model object is used for a second flight',
                                   {'error': f'{type(e).__name__}: {str(e)[:200]}',
                                    'speed_factor': f_, **desc})
                for (m_arg, sgr) in (calls[0], calls[-1]):
                    for i in range(n):
                        e_sgr, e_thr, e_ff, br = B.specific_ground_range(
                            p, float(m_arg[i]), float(prof2['temperature'][i]),
                            float(prof2['altitude'][i]), float(prof2['v_tas'][i]),
                            float(prof2['rocd'][i]), float(prof2['acceleration'][i]),
                            bool(prof2['in_cruise'][i]), float(prof2['groundspeed'][i]))
                        rec.ev()
                        cond_tol = conditioning(m_arg, prof2, i, br)
                        if cond_tol is None:
                            continue
                        if not rel(float(sgr[i]), e_sgr, cond_tol):
                            raise Mismatch('second flight with the same model object (same '
                                           'altitudes and temperatures, other speeds): specific '
                                           'ground range differs from the BADA-3 equations',
                                           {'point': i, 'sgr': float(sgr[i]), 'expected_sgr': e_sgr,
                                            'branch': br, 'speed_factor': f_, **desc})
                rec.cls('model:second-flight-same-vertical-profile-other-speeds',
                        f'model:second-flight:{p["engine_type"]}')
                kwargs.clear()
                kwargs.update(prof)
                calls[:] = first_calls
            # ---- the returned vector is the trapezoid integral of the LAST evaluation ---------
            sgr = calls[-1][1]
            inv = np.where(sgr < 1, 0.0, 1.0 / np.where(sgr < 1, 1.0, sgr))
            dxs = np.broadcast_to(np.asarray(prof['segment_distance'], float), (n - 1,))
            steps = [0.5 * (float(inv[i]) + float(inv[i + 1])) * float(dxs[i])
                     for i in range(n - 1)]
            if mode == 'constant_final':
                if not rel(float(mass[-1]), m0, 1e-12):
                    raise Mismatch('profile does not end at the prescribed final mass',
                                   {'last': float(mass[-1]), 'prescribed': m0, **desc})
                exp = [0.0] * n
                exp[-1] = float(mass[-1])
                for i in range(n - 2, -1, -1):
                    exp[i] = exp[i + 1] + steps[i]
            else:
                if mode == 'constant_initial' and not rel(float(mass[0]), m0, 1e-12):
                    raise Mismatch('profile does not start at the prescribed initial mass',
                                   {'first': float(mass[0]), 'prescribed': m0, **desc})
                exp = [float(mass[0])]
                for s in steps:
                    exp.append(exp[-1] - s)
            rec.ev()
            worst = max(range(n), key=lambda i: abs(exp[i] - float(mass[i])))
            if abs(exp[worst] - float(mass[worst])) > 1e-9 * abs(exp[worst]) + 1e-6:
                raise Mismatch('mass decrease over a step is not the trapezoidal integral of fuel '
                               'flow / ground speed', {'point': worst, 'mass': float(mass[worst]),
                                                       'expected': exp[worst],
                                                       'first_points': mass[:4].tolist(), **desc})
            dm = np.diff(mass)
            if np.any(dm > 1e-9 * abs(mass[0])):
                i = int(np.argmax(dm))
                raise Mismatch('mass profile increases along the flight',
                               {'point': i + 1, 'before': float(mass[i]),
                                'after': float(mass[i + 1]), **desc})
            rec.cls('profile:monotone-checked')
            for kk, vv in prof.items():
                b = inputs_before[kk]
                if np.asarray(vv).dtype != b.dtype or not np.array_equal(np.asarray(vv), b):
                    raise Mismatch('the fuel-burn model modified one of its input arrays',
                                   {'input': kk, **desc})
            if float(np.min(prof['altitude'])) < 0:
                rec.cls('altitude:below-sea-level')
            if n >= 258:
                rec.cls('profile:more-than-257-points')
                if pd_['dx_kind'].startswith('per-segment') and mode == 'constant_final':
                    rec.cls('profile:more-than-257-points:per-segment:constant_final')
            rec.cls(f'cruise-flag-type:{pd_["flags"]}', f'segment-distance:{pd_["dx_kind"]}',
                    f'segment-distance:{pd_["dx_kind"]}:{mode}')
            if mode in ('rf_fraction', 'rf_value'):
                if float(mass.max()) > mtow * (1 + 1e-12):
                    raise Mismatch('fuel-dependent initial mass exceeds maximum take-off mass',
                                   {'max': float(mass.max()), 'mtow': mtow, **desc})
                burn = float(mass[0] - mass[-1])
                want = min(oew + mpl * lf + (burn * (1 + rf) if mode == 'rf_fraction'
                                             else burn + rf), mtow)
                if not rel(float(mass[0]), want, 1e-9):
                    raise Mismatch('initial mass is not OEW + payload + fuel burn (+ reserve) '
                                   'capped at MTOM', {'first': float(mass[0]), 'expected': want,
                                                      'burn': burn, **desc})
                rec.cls('mtom:binding' if want == mtow else 'mtom:not-binding')
            for br in branches:
                rec.cls(f'thrust:{br}')
            rec.cls(f'engine:{p["engine_type"]}', f'mode:{mode}', f'n_iter:{min(n_iter, 3)}+')
            if pd_['mixed_cruise']:
                rec.cls('cruise-flag:mixed')
            if pd_['hot']:
                rec.cls('temperature:hot')
            if pd_['dT'] == 0.0:
                rec.cls('temperature:library-ISA-exactly')
                if p['c_tc4'] < 0 and p['c_tc5'] > 0:
                    rec.cls('temperature:library-ISA-exactly:negative-c_tc4')
            if k < 2:
                rec.sample({**desc, 'params': {kk: p[kk] for kk in ('c_tc1', 'c_tc2', 'c_f1',
                                                                    'c_f2', 'S_ref', 'ref_mass')},
                            'mass_first_last': [float(mass[0]), float(mass[-1])]})
        except Mismatch as m:
            rec.violation(m.mechanism, m.detail, case)
