"""C07 — store indices follow insertion order across sessions and evictions.

S2: random histories of create / add / read / iterate / sync / close /
reopen-append / reopen-read / save on the real TrajectoryStore, each operation
compared online with a Python list.
"""

from __future__ import annotations

import random
import shutil
import tempfile
from pathlib import Path

ID = 'C07'
LEVEL = 'exploration'
RULE = ('random operation histories (5-45 ops, cache holding 1/2/3/all items, file '
        'and in-memory stores) on the real TrajectoryStore; after EVERY operation the '
        'returned index / len / item fingerprints+contents / iteration order are '
        'compared with a Python list model; a class is (operation, session kind, '
        'cached|reloaded, old|new item relative to session start); plus one long store (quick '
        '303, thorough 33 003 trajectories) read at the power-of-two boundaries in the creating, '
        'an appending and a reading session')
ASSUMPTIONS = [
    'negative indices are not exercised (the property speaks of indices beyond the end)',
    'all store work happens in the main thread of a fresh process per shard',
    'trajectories are identified by a unique name and unique array contents',
]
CRASH_IS_VIOLATION = True   # a native crash of netCDF4/HDF5 under the store workload
SHARD_TIMEOUT = {'quick': 600, 'thorough': 3600}


def plan(tier, seed):
    n_shards = 16
    per = 20 if tier == 'quick' else 500
    return [{'seed': seed * 1000 + i, 'n': per} for i in range(n_shards)] + \
        [{'seed': seed * 1000 + 99, 'n': 0, 'big': 300 if tier == 'quick' else 33000}]


def required(tier):
    return {
        'classes': [
            'get:append:reloaded:old', 'get:append:cached:new', 'get:read:reloaded:old',
            'get:create_file:reloaded:new', 'iter:append', 'iter:read',
            'add:in-memory store refused (would evict)', 'save:in-memory->file',
            'get:beyond-end:append', 'get:beyond-end:read',
            'assoc-lag:append-continues-base-list', 'iter-overlapping:read',
            'iter-overlapping:append', 'save:onto-existing-file:refused:ValueError',
            'big-store:more-than-255-trajectories' if tier == 'quick' else
            'big-store:more-than-32767-trajectories',
        ],
        'counters': {'evictions': 1, 'append_old_reload': 1, 'append_new_reload': 1,
                     'oversize_refusals': 1},
        'evaluations': 500,
    }


def one_history(rng: random.Random, workdir: Path, rec, k: int):
    from vlib.storeops import EVICTIONS, StoreHistory

    cache_items = rng.choice([1, 1, 2, 3, None])
    in_mem = rng.random() < 0.2
    h = StoreHistory(rng, workdir, rec, identified=False, cache_items=cache_items,
                     in_memory=in_mem, uid_base=k * 1000)
    ev0 = EVICTIONS['n']
    try:
        h.open_session('create_mem' if in_mem else 'create_file')
        nops = rng.randint(5, 45)
        for _ in range(nops):
            if h.store is None:
                # closed: reopen (append favoured: that is where old reads matter)
                if not h.file_exists:
                    h.path = workdir / f'h{rng.getrandbits(40):x}.nc'
                    h.model, h.ids = [], {}
                    h.open_session('create_file')
                else:
                    h.open_session('append' if rng.random() < 0.65 else 'read')
                    h.check_len()
                continue
            r = rng.random()
            n = len(h.model)
            if h.writable and r < 0.30:
                h.op_add()
                if rng.random() < 0.5 and n > 0:
                    # read an OLD index right after an addition
                    h.op_get(rng.randrange(0, max(1, h.session_start_len or n)))
            elif r < 0.62:
                if n and rng.random() < 0.85:
                    h.op_get(rng.randrange(n))
                else:
                    h.op_get(n + rng.randint(0, 3))
            elif r < 0.66:
                h.op_iter()
            elif r < 0.70:
                h.op_iter_overlapping()
            elif r < 0.75:
                h.check_len()
            elif r < 0.80 and h.writable and h.session != 'create_mem' and n > 0:
                h.op_sync()
                if rng.random() < 0.3:
                    h.op_add_oversize()
            elif r < 0.83 and h.session == 'create_mem' and n > 0:
                h.op_save_rejected()
                if rng.random() < 0.5:
                    h.op_add_oversize()
            elif r < 0.86 and h.session == 'create_mem' and n > 0:
                h.op_save()
            elif r < 0.97:
                if h.session == 'create_mem':
                    continue        # closing an unsaved in-memory store ends the history
                if h.session == 'create_file' and n == 0:
                    continue        # file not created yet
                h.close()
            else:
                h.check_all_reads()
        if h.store is not None:
            h.check_len()
            h.check_all_reads()
            h.op_get(len(h.model))
            h.op_iter()
            if h.session != 'create_mem' and len(h.model) > 0:
                h.close()
                h.open_session('read')
                h.check_len()
                h.check_all_reads()
                h.op_iter()
    finally:
        rec.count('evictions', EVICTIONS['n'] - ev0)
        rec.count('histories')
        h.cleanup()
    return h


def assoc_lag_history(rng, workdir: Path, rec, k):
    """Base + associated file; an append session on the base alone leaves the associated
    file shorter; the next append session on both must still continue the base's list."""
    import numpy as np

    import vlib.fieldsets as vf
    from AEIC.trajectories import TrajectoryStore
    from vlib import trajgen
    from vlib.storeops import Mismatch

    nprng = np.random.default_rng(rng.getrandbits(32))
    base = workdir / f'al{rng.getrandbits(40):x}.nc'
    assoc = workdir / f'al{rng.getrandbits(40):x}_x.nc'
    uid = [k * 1000 + 600]
    model = []

    def mk(full):
        uid[0] += 1
        t = trajgen.make_base_traj(nprng, rng.randint(2, 6), uid[0])
        if full:
            t.add_fields(vf.VX_SIMPLE)
            vf.fill(t, 'vx_simple', rng)
        return t

    def add(st, full, log):
        t = mk(full)
        idx = st.add(t)
        rec.ev()
        if idx != len(model):
            raise Mismatch('add returned wrong index',
                           {'returned': idx, 'expected': len(model), 'history': log,
                            'layout': 'base+associated, associated file lagging'})
        model.append((trajgen.snapshot(t), full))
        if len(st) != len(model):
            raise Mismatch('len(store) differs from number of successful additions',
                           {'store_len': len(st), 'model_len': len(model), 'history': log})

    log = []
    n, kk = rng.randint(1, 4), rng.randint(1, 3)
    try:
        st = TrajectoryStore.create(base_file=base, associated_files=[(assoc, ['vx_simple'])])
        for _ in range(n):
            add(st, True, log)
        st.close()
        log.append(f'create base+assoc, {n} adds')
        st = TrajectoryStore.append(base_file=base)            # base only
        for _ in range(kk):
            add(st, False, log)
        st.close()
        log.append(f'append base only, {kk} adds')
        st = TrajectoryStore.append(base_file=base, associated_files=[assoc])
        rec.ev()
        if len(st) != len(model):
            raise Mismatch('len(store) differs from number of successful additions',
                           {'store_len': len(st), 'model_len': len(model), 'history': log})
        add(st, True, log)
        log.append('append base+assoc, 1 add')
        for i in list(range(n)) + [len(model) - 1]:
            got = st[i]
            rec.ev()
            if trajgen.fingerprint(got) != trajgen.fingerprint(model[i][0]):
                raise Mismatch('store[i] returned a different trajectory',
                               {'index': i, 'got': trajgen.fingerprint(got),
                                'expected': trajgen.fingerprint(model[i][0]), 'history': log})
        st.close()
        st = TrajectoryStore.open(base_file=base)               # base only: the whole list
        fg = [trajgen.fingerprint(t) for t in st]
        st.close()
        rec.ev()
        if fg != [trajgen.fingerprint(s) for s, _ in model]:
            raise Mismatch('iteration order/content differs from insertion order',
                           {'got': fg, 'expected': [trajgen.fingerprint(s) for s, _ in model],
                            'history': log})
        rec.cls('assoc-lag:append-continues-base-list')
    finally:
        for p in (base, assoc):
            p.unlink(missing_ok=True)


def two_objects_one_path(rng, workdir: Path, rec, k):
    """Store object A is created for a path and left empty (its file is only created by the
    first addition); meanwhile object B creates, fills and closes a store at the same path;
    then A gets its first trajectory.  Whatever A answers, what B added and closed stays."""
    import numpy as np

    from AEIC.trajectories import TrajectoryStore
    from vlib import trajgen
    from vlib.storeops import Mismatch

    nprng = np.random.default_rng(rng.getrandbits(32))
    p = workdir / f'shared{rng.getrandbits(40):x}.nc'
    a = TrajectoryStore.create(base_file=p)
    try:
        try:
            b = TrajectoryStore.create(base_file=p)
        except Exception:  # noqa: BLE001  (refusing a second object for the path is fine)
            rec.cls('two-objects-one-path:second-object-refused')
            return
        snaps = []
        for j in range(rng.randint(1, 4)):
            t = trajgen.make_base_traj(nprng, rng.randint(2, 5), k * 1000 + 800 + j)
            b.add(t)
            snaps.append(trajgen.snapshot(t))
        b.close()
        late = trajgen.make_base_traj(nprng, 3, k * 1000 + 850)
        try:
            a.add(late)
            outcome = 'accepted'
        except Exception as e:  # noqa: BLE001
            outcome = f'refused:{type(e).__name__}'
    finally:
        try:
            a.close()
        except Exception:  # noqa: BLE001
            pass
    rec.ev()
    try:
        with TrajectoryStore.open(base_file=p) as st:
            got = [trajgen.fingerprint(st[i]) for i in range(len(st))]
    except Exception as e:  # noqa: BLE001
        raise Mismatch('a store that was filled and closed cannot be read after another object '
                       'created for the same path was used',
                       {'error': f'{type(e).__name__}: {str(e)[:200]}', 'late_add': outcome})
    exp = [trajgen.fingerprint(s_) for s_ in snaps]
    if got[:len(exp)] != exp:
        raise Mismatch('trajectories added and closed through one store object are lost when '
                       'another object created earlier for the same path gets its first addition',
                       {'late_add': outcome, 'in_file_now': got, 'added_and_closed': exp})
    rec.cls(f'two-objects-one-path:late-first-addition-{outcome.split(":")[0]}')
    p.unlink(missing_ok=True)


def big_store(spec, rec, workdir, identified=False):
    """One long store: N additions (N beyond 255, at thorough tier beyond 32 767), reads at
    the power-of-two boundaries, in the creating session, an append session and a read session."""
    from vlib.storeops import StoreHistory

    rng = random.Random(f"big-{spec['seed']}")
    N = spec['big']
    h = StoreHistory(rng, workdir, rec, identified=identified, cache_items=3, uid_base=5_000_000)
    marks = [0, 1, 49, 50, 51, 99, 100, 127, 128, 254, 255, 256, 257, 511, 512, 1023, 1024,
             4095, 4096, 32766, 32767, 32768, 32769]

    def boundary_reads(extra=8):
        n = len(h.model)
        for i in [m for m in marks if m < n] + [n - 1, n, n + 1]:
            h.op_get(i)
        for _ in range(extra):
            i = rng.randrange(n)
            h.op_get(i)
            if identified:
                h.op_lookup(True)
    try:
        h.open_session('create_file')
        for j in range(N):
            h.op_add()
            if (j + 1) in (255, 256, 257, 32767, 32768, 32769) or (j + 1) % 997 == 0:
                boundary_reads(3)
        boundary_reads()
        h.close()
        h.open_session('append')
        h.check_len()
        boundary_reads()
        for _ in range(3):
            h.op_add()
        boundary_reads()
        h.close()
        h.open_session('read')
        h.check_len()
        boundary_reads(30)
        if identified:
            for _ in range(20):
                h.op_lookup(False)
        h.op_iter()
        h.close()
        rec.cls(f'big-store:{"more-than-32767" if N > 32767 else "more-than-255"}-trajectories')
        rec.count('big_store_trajectories', N + 3)
    finally:
        h.cleanup()


def run_shard(spec, rec):
    from vlib.storeops import Mismatch

    workdir = Path(tempfile.mkdtemp(prefix='c07-'))
    if 'big' in spec:
        try:
            big_store(spec, rec, workdir)
        except Mismatch as m:
            classify(rec, m, {'spec': dict(spec), 'k': 'big'})
        finally:
            shutil.rmtree(workdir, ignore_errors=True)
        return
    try:
        ks = [spec['only']] if 'only' in spec else range(spec['n'])
        for k in ks:
            rng = random.Random(spec['seed'] * 100003 + k)
            try:
                h = one_history(rng, workdir, rec, k)
                if k < 2:
                    rec.sample({'history': h.log[:40], 'final_len': len(h.model),
                                'cache_items': h.cache_items})
            except Mismatch as m:
                classify(rec, m, {'spec': {'seed': spec['seed'], 'n': spec['n']}, 'k': k})
            if k % 4 == 0:
                try:
                    assoc_lag_history(random.Random(f"{spec['seed']}-{k}-lag"), workdir, rec, k)
                except Mismatch as m:
                    classify(rec, m, {'spec': {'seed': spec['seed'], 'n': spec['n']}, 'k': k})
            if k % 4 == 1:
                try:
                    two_objects_one_path(random.Random(f"{spec['seed']}-{k}-two"), workdir, rec, k)
                except Mismatch as m:
                    classify(rec, m, {'spec': {'seed': spec['seed'], 'n': spec['n']}, 'k': k})
    finally:
        shutil.rmtree(workdir, ignore_errors=True)


def classify(rec, m, case):
    rec.violation(m.mechanism, m.detail, case)

LEVEL_TEXT = ('Exploration by model-based runtime monitoring: thousands of short random '
              'operation histories on the real store, every observable result compared '
              'online with a list model; reach = cache pressure (1-3 items), append '
              'sessions reading old items, in-memory refusal, save(). Held on the '
              'histories observed, not a proof.')
LEVEL_NOTE = ('Trusts netCDF4/HDF5 and cachetools; single-threaded; negative indices and '
              'merged stores (see C09) not part of this check.')
TECHNIQUE = 'online reference-model (list) checker over recorded API histories'
