"""C03 — what is stored in a trajectory store is what is read back.

S3: generated trajectories over the harness field-set family (all six
dimension combinations x float64/float32/int32/int64/str x required/optional/
defaulted) with hostile values and per-field species subsets are written
through the real store in every file layout and read back; an independent
recursive comparison (not Container.__eq__) decides equality.
"""

from __future__ import annotations

import random
import shutil
import tempfile
from pathlib import Path

ID = 'C03'
LEVEL = 'exploration'
RULE = ('generated stores: 1-5 trajectories of length 1-120 over field-set subsets of '
        '{vx_simple, vx_species, vx_modes} (TP/T/TS/TSP/TM/TSM x f64/f32/i32/i64/str x '
        'required/optional/default), species-set shape {prefix, gapped, per-field, full, '
        'single} and {uniform, subset-later} across trajectories, random unset patterns of '
        'optional fields, hostile values (+-0, subnormal, huge, int extremes, unicode); '
        'layouts {single file, base+1-2 associated, mapped via create_associated, '
        'in-memory then save}; read back in the writing session (cached and evicted), '
        'after sync, after reopen READ and APPEND; independent bitwise/key-set comparison; '
        'class = (layout, field sets, species shape, read phase)')
ASSUMPTIONS = [
    'values equal to a NetCDF fill value (9.97e36, -2147483647, -9223372036854775806, "") '
    'are excluded: they are the format\'s own missing-value sentinel',
    'within one store every later trajectory uses species that the first trajectory of the '
    'store also used (the species dimension is fixed when the file is created)',
    'field sets are added to each trajectory in the same order',
]
CRASH_IS_VIOLATION = True
SHARD_TIMEOUT = {'quick': 600, 'thorough': 3600}
LEVEL_TEXT = ('Exploration: round-trip differential monitoring of the real store over '
              'generated field-set/species/layout combinations with an independent deep '
              'comparison. Held on the stores observed.')
LEVEL_NOTE = 'Trusts netCDF4/HDF5 value fidelity for non-fill values; single-threaded.'
TECHNIQUE = 'round-trip differential oracle with independent deep comparison'

KF_UNSET_STR = 'C03-unset-optional-string-reads-empty'


def plan(tier, seed):
    per = 14 if tier == 'quick' else 400
    # the order in which groups of a file are visited depends on string hashing: vary it
    return [{'seed': seed * 1000 + i, 'n': per, 'hashseed': i % 5} for i in range(16)]


def required(tier):
    cl = [f'species:{s}' for s in ('prefix', 'gapped', 'per-field', 'full', 'single')]
    cl += [f'layout:{x}' for x in ('single', 'assoc1', 'assoc2', 'mapped', 'mem-save')]
    cl += ['phase:same-session-evicted', 'phase:reopen-read', 'phase:reopen-append',
           'phase:after-sync', 'across:subset-later', 'across:uniform', 'across:any-of-union', 'phase:append-one-more',
           'field-set-order:shuffled', 'field-set:defined-again-in-another-field-order',
           'trajectory:without-points', 'combo:two-species-sets-in-two-files:cross-set-species',
           'layout:associated-file-named-like-the-base-file']
    return {'classes': cl, 'counters': {'trajectories_compared': 300}, 'evaluations': 300}


class _Mapped:
    """HasFieldSets view on the extra fields of a fully built trajectory."""

    def __init__(self, full, fieldsets):
        import vlib.fieldsets as vf

        self.FIELD_SETS = [vf.ALL[n] for n in fieldsets]
        for n in fieldsets:
            for f in vf.ALL[n].fields:
                setattr(self, f, getattr(full, f))


def one_store(rng, workdir: Path, rec, k):
    import copy

    import numpy as np

    import vlib.fieldsets as vf
    from AEIC.trajectories import TrajectoryStore
    from AEIC.trajectories.trajectory import BASE_FIELDS, Trajectory
    from vlib import trajgen
    from vlib.storeops import Mismatch as M

    nprng = np.random.default_rng(rng.getrandbits(32))
    extras = [n for n in ('vx_simple', 'vx_species', 'vx_modes') if rng.random() < 0.6]
    if rng.random() < 0.3:
        extras.append('vx_optfirst')
    if rng.random() < 0.2:
        extras.append('se')              # a field set with a very short name
    if rng.random() < 0.3:
        extras.append('vx_allopt')       # a set a trajectory may leave entirely unset
        if rng.random() < 0.3:
            extras = ['vx_allopt']
    if not extras and rng.random() < 0.8:
        extras = [rng.choice(['vx_species', 'vx_modes', 'vx_simple'])]
    shape = rng.choice(['prefix', 'gapped', 'per-field', 'full', 'single'])
    across = rng.choice(['uniform', 'uniform', 'subset-later', 'any-of-union'])
    layouts = ['single', 'mem-save']
    if extras:
        layouts += ['assoc1', 'mapped']
    if len(extras) >= 2:
        layouts += ['assoc2']
    layout = rng.choice(layouts)
    if 'vx_species' in extras and 'vx_modes' in extras and rng.random() < 0.5:
        # two species-indexed field sets in two files, each field with its own species, and
        # later trajectories using in one set a species the first one carried only in the other
        layout, shape, across = 'assoc2', 'per-field', 'any-of-union'
        extras = ['vx_species', 'vx_modes'] + [x for x in extras
                                               if x not in ('vx_species', 'vx_modes')]
        rec.cls('combo:two-species-sets-in-two-files:cross-set-species')
    ntraj = rng.randint(1, 5)
    d = workdir / f's{rng.getrandbits(40):x}'
    d.mkdir()
    base = d / 'base.nc'
    plan0 = vf.species_plan(rng, shape)
    case = {'extras': extras, 'species_shape': shape, 'across': across, 'layout': layout,
            'ntraj': ntraj,
            'plan': {f: [s.name for s in v] for f, v in plan0.items()}}

    def build(j):
        npts = rng.choice([1, 1, 2, 3, 7, 50, 51, 120]) if rng.random() < 0.5 else \
            rng.randint(1, 120)
        t = trajgen.make_base_traj(nprng, npts, k * 100 + j + 1,
                                   flight_id=None, name=rng.random() < 0.7)
        plan = plan0
        if j > 0:
            # the first trajectory fixed the file's species dimension (see ASSUMPTIONS):
            # later trajectories only use species the first one carried in SOME field
            plan = {}
            for f, v in plan0.items():
                ok = [sp for sp in v if sp in union0] or sorted(union0) or list(v)
                if across == 'subset-later':
                    ok = sorted(rng.sample(ok, rng.randint(1, len(ok))))
                elif across == 'any-of-union' and union0:
                    # any species the first trajectory carried in SOME field set (the files'
                    # species dimension is that union), also one this field did not carry
                    ok = sorted(rng.sample(sorted(union0), rng.randint(1, len(union0))))
                plan[f] = ok
        order = list(extras)
        if shuffle_order and j > 0:
            rng.shuffle(order)          # the same field sets, added in another order
        for n in order:
            t.add_fields(vf.ALL[n])
            # optional species fields may be unset in the first trajectory too; only if it
            # would carry no species at all do we keep them (a file needs a species list)
            vf.fill(t, n, rng, plan=plan, keep_species_fields=(j == 0 and keep_first),
                    unset_prob=1.0 if (n == 'vx_allopt' and rng.random() < 0.5) else 0.4)
        if j == 0:
            union0.update(t.species)
        return t

    union0: set = set()
    keep_first = rng.random() < 0.4
    shuffle_order = len(extras) >= 2 and rng.random() < 0.5

    trajs = [build(j) for j in range(ntraj)]
    extra_t = build(ntraj)              # added later, in an append session
    if not keep_first:
        rec.cls('first-trajectory:optional-species-fields-may-be-unset')
    snaps = [trajgen.snapshot(t) for t in trajs]
    small_cache = rng.random() < 0.5
    cache_mb = max(t.nbytes for t in trajs + [extra_t]) * 1.5 / (1024 * 1024) \
        if small_cache else 64

    def compare_all(st, phase):
        for i, s in enumerate(snaps):
            rec.ev()
            cached = i in st._trajectories
            try:
                got = st[i]
            except Exception as e:  # noqa: BLE001
                raise M('reading a stored trajectory raised',
                        {'index': i, 'phase': phase, 'error': f'{type(e).__name__}: '
                         f'{str(e)[:200]}', **case})
            diffs = trajgen.compare(s, got, strict_unset_str=True)
            hard = [x for x in diffs if not x.startswith(trajgen.UNSET_STR_MARK)]
            soft = [x for x in diffs if x.startswith(trajgen.UNSET_STR_MARK)]
            if soft:
                rec.finding(KF_UNSET_STR,
                            'an unset optional string field reads back as "" instead of unset '
                            '(pinned by tests/test_storage.py::test_read_nulls)',
                            {'diffs': soft[:3], 'phase': phase}, {'k': k, **case})
            if hard:
                raise M(_mechanism(hard), {'index': i, 'phase': phase, 'cached': cached,
                                           'diffs': hard[:6], **case})
            rec.count('trajectories_compared')
            if phase == 'same-session' and not cached:
                rec.cls('phase:same-session-evicted')
        rec.cls(f'phase:{phase}')

    def add_all(st):
        for j, t in enumerate(trajs):
            try:
                idx = st.add(t)
            except Exception as e:  # noqa: BLE001
                raise M('adding a trajectory that fits its field sets raised',
                        {'index': j, 'error': f'{type(e).__name__}: {str(e)[:200]}', **case})
            if idx != j:
                raise M('add returned wrong index', {'returned': idx, 'expected': j, **case})

    assoc_paths = []
    try:
        if layout == 'mapped':
            # base store first (base field set only), extras produced by mapping
            base_trajs = []
            for j, t in enumerate(trajs):
                b = Trajectory(len(t))
                for f in BASE_FIELDS.fields:
                    b._data[f] = copy.deepcopy(t._data[f])
                base_trajs.append(b)
            st = TrajectoryStore.create(base_file=base)
            for b in base_trajs:
                st.add(b)
            st.close()
            ap = d / 'mapped.nc'
            order = iter(trajs)
            st = TrajectoryStore.open(base_file=base)
            try:
                st.create_associated(ap, list(extras),
                                     lambda tr: _Mapped(next(order), extras))
            except Exception as e:  # noqa: BLE001
                raise M('create_associated raised on data that fit the field sets',
                        {'error': f'{type(e).__name__}: {str(e)[:200]}', **case})
            finally:
                st.close()
            assoc_paths = [ap]
        else:
            kw = {}
            if layout == 'assoc1':
                assoc_paths = [d / 'a1.nc']
                if rng.random() < 0.3:
                    # same file name as the base file, in a directory of its own
                    (d / 'emissions').mkdir(exist_ok=True)
                    assoc_paths = [d / 'emissions' / base.name]
                    rec.cls('layout:associated-file-named-like-the-base-file')
                kw['associated_files'] = [(assoc_paths[0], list(extras))]
            elif layout == 'assoc2':
                if 'vx_allopt' in extras:          # the all-optional set in a file of its own
                    extras = [x for x in extras if x != 'vx_allopt'] + ['vx_allopt']
                cut = rng.randint(1, len(extras) - 1) if 'vx_allopt' not in extras \
                    else len(extras) - 1
                if extras[:2] == ['vx_species', 'vx_modes']:
                    cut = 1
                assoc_paths = [d / 'a1.nc', d / 'a2.nc']
                kw['associated_files'] = [(assoc_paths[0], extras[:cut]),
                                          (assoc_paths[1], extras[cut:])]
            if layout == 'mem-save':
                st = TrajectoryStore.create(cache_size_mb=256)
                add_all(st)
                compare_all(st, 'in-memory')
                try:
                    st.save(base)
                except Exception as e:  # noqa: BLE001
                    raise M('save() raised on data that fit the field sets',
                            {'error': f'{type(e).__name__}: {str(e)[:200]}', **case})
            else:
                try:
                    st = TrajectoryStore.create(base_file=base, cache_size_mb=cache_mb, **kw)
                except Exception as e:  # noqa: BLE001
                    raise M('creating a store for a valid file layout raised',
                            {'error': f'{type(e).__name__}: {str(e)[:200]}',
                             'files': [str(base.relative_to(d))]
                             + [str(x.relative_to(d)) for x in assoc_paths], **case})
                add_all(st)
            try:
                compare_all(st, 'same-session')
                st.sync()
                compare_all(st, 'after-sync')
            finally:
                try:
                    st.close()
                except Exception as e:  # noqa: BLE001
                    raise M('close() raised', {'error': f'{type(e).__name__}: {e}', **case})
        # reopen READ and APPEND
        for mode, opener in (('reopen-read', TrajectoryStore.open),
                             ('reopen-append', TrajectoryStore.append)):
            try:
                st = opener(base_file=base, associated_files=list(assoc_paths) or None,
                            cache_size_mb=cache_mb)
            except Exception as e:  # noqa: BLE001
                raise M('reopening a store written by the store raised',
                        {'mode': mode, 'error': f'{type(e).__name__}: {str(e)[:200]}', **case})
            try:
                rec.ev()
                if len(st) != len(snaps):
                    raise M('reopened length differs', {'len': len(st), **case})
                compare_all(st, mode)
            finally:
                st.close()
        # ---- append session: read an old item, then add one more trajectory ----------------
        if layout != 'mapped':
            if extras and rng.random() < 0.3:
                # the appending program is "another version": its field sets list the same
                # fields in another order; every value must still land under its own name
                if any([vf.reregister_reordered(n, rng) for n in extras]):
                    extra_t = build(ntraj)
                    cache_mb = max(cache_mb, extra_t.nbytes * 1.5 / (1024 * 1024))
                    rec.cls('field-set:defined-again-in-another-field-order')
            extra_snap = trajgen.snapshot(extra_t)
            st = TrajectoryStore.append(base_file=base, associated_files=list(assoc_paths) or None,
                                        cache_size_mb=cache_mb)
            try:
                _ = st[rng.randrange(ntraj)]
                try:
                    idx = st.add(extra_t)
                except Exception as e:  # noqa: BLE001
                    raise M('adding a trajectory that fits its field sets raised',
                            {'phase': 'append session after reading an old item',
                             'field_set_order_shuffled': shuffle_order,
                             'error': f'{type(e).__name__}: {str(e)[:200]}', **case})
                if idx != ntraj:
                    raise M('add returned wrong index', {'returned': idx, 'expected': ntraj,
                                                         **case})
            finally:
                st.close()
            snaps.append(extra_snap)
            st = TrajectoryStore.open(base_file=base, associated_files=list(assoc_paths) or None)
            try:
                compare_all(st, 'append-one-more')
            finally:
                st.close()
        if shuffle_order:
            rec.cls('field-set-order:shuffled')
    finally:
        vf.restore_registered_order()
        shutil.rmtree(d, ignore_errors=True)
    rec.cls(f'layout:{layout}', f'species:{shape}', f'across:{across}',
            'fieldsets:' + ('+'.join(x[3:] for x in extras) or 'base-only'),
            f'combo:{layout}:{shape}:{"+".join(x[3:5] for x in extras) or "-"}')
    return case


def _mechanism(diffs):
    d0 = diffs[0]
    if 'species lost=' in d0:
        lost = 'lost=[]' not in d0
        inv = 'invented=[]' not in d0
        return ('species ' + ('lost' if lost else '') + ('+' if lost and inv else '')
                + ('invented' if inv else '') + ' on read-back')
    if 'dtype' in d0:
        return 'dtype changed on read-back'
    if 'kind' in d0:
        return 'scalar kind changed on read-back'
    if 'shape' in d0 or 'len ' in d0:
        return 'length/shape changed on read-back'
    return 'value changed on read-back'


KF_ZERO = 'C03-zero-point-trajectory-not-readable-from-file'


def zero_point_probe(rng, workdir: Path, rec, k):
    """A trajectory without points (a flight that produced no way-point; ``Trajectory(0)`` is
    accepted by ``add``).  While it is held in memory it must come back equal; read back from
    the file it is the listed finding (the read path cannot tell "no points" from "unset")."""
    import numpy as np

    from AEIC.trajectories import TrajectoryStore
    from vlib import trajgen
    from vlib.storeops import Mismatch as M

    nprng = np.random.default_rng(rng.getrandbits(32))
    pos = rng.randrange(3)
    trajs = [trajgen.make_base_traj(nprng, 0 if j == pos else rng.randint(1, 5), k * 100 + 50 + j)
             for j in range(3)]
    snaps = [trajgen.snapshot(t) for t in trajs]
    case = {'zero_point_trajectory_at_index': pos}

    def read_all(st, where, from_file):
        for i, sn in enumerate(snaps):
            rec.ev()
            try:
                got = st[i]
            except (AssertionError, TypeError) as e:
                # (TypeError: the same failure in an interpreter with assertions stripped)
                if from_file and i == pos and (isinstance(e, AssertionError)
                                               or not __debug__):
                    rec.finding(KF_ZERO, 'a trajectory without points is accepted by add() but '
                                'cannot be read back from the file (AssertionError in '
                                '_load_trajectory: the number of points cannot be determined)',
                                {'where': where, **case}, {'k': k, **case})
                    continue
                raise M('reading a stored trajectory raised',
                        {'index': i, 'where': where, 'error': f'{type(e).__name__}: {e}', **case})
            except Exception as e:  # noqa: BLE001
                raise M('reading a stored trajectory raised',
                        {'index': i, 'where': where,
                         'error': f'{type(e).__name__}: {str(e)[:200]}', **case})
            diffs = [x for x in trajgen.compare(sn, got)
                     if not x.startswith(trajgen.UNSET_STR_MARK)]
            if diffs:
                raise M('a stored trajectory reads back with altered contents',
                        {'index': i, 'where': where, 'diffs': diffs[:4], **case})
    # in memory
    st = TrajectoryStore.create(cache_size_mb=64)
    try:
        for j, t in enumerate(trajs):
            if st.add(t) != j:
                raise M('add returned wrong index', {'expected': j, **case})
        if len(st) != 3:
            raise M('len(store) differs from number of successful additions', case)
        read_all(st, 'in-memory store', False)
        got = [trajgen.fingerprint(t) for t in st]
        if got != [trajgen.fingerprint(s_) for s_ in snaps]:
            raise M('iteration order/content differs from insertion order',
                    {'got': got, **case})
    finally:
        st.close()
    # file-backed: the creating session holds everything in its cache
    p = workdir / f'zp{rng.getrandbits(40):x}.nc'
    st = TrajectoryStore.create(base_file=p, cache_size_mb=64)
    try:
        for t in trajs:
            st.add(t)
        read_all(st, 'creating session (cached)', False)
    finally:
        st.close()
    st = TrajectoryStore.open(base_file=p)
    try:
        if len(st) != 3:
            raise M('reopened length differs', {'len': len(st), **case})
        read_all(st, 'reopened for reading', True)
    finally:
        st.close()
    p.unlink(missing_ok=True)
    rec.cls('trajectory:without-points')


def run_shard(spec, rec):
    from vlib import failpoints
    from vlib.storeops import Mismatch

    workdir = Path(tempfile.mkdtemp(prefix='c03-'))
    try:
        ks = [spec['only']] if 'only' in spec else range(spec['n'])
        for k in ks:
            rng = random.Random(f"{spec['seed']}-{k}")
            try:
                clock = 'whole-second' if k % 6 == 4 else None
                with failpoints.store_clock(clock):
                    c = one_store(rng, workdir, rec, k)
                if clock:
                    rec.cls('clock:whole-second-creation-stamp')
                if k < 2:
                    rec.sample(c)
                if k % 5 == 2:
                    zero_point_probe(random.Random(f"{spec['seed']}-{k}-zp"), workdir, rec, k)
            except Mismatch as m:
                rec.violation(m.mechanism, m.detail,
                              {'spec': {'seed': spec['seed'], 'n': spec['n']}, 'k': k})
    finally:
        shutil.rmtree(workdir, ignore_errors=True)
