"""C18 — exactly one immutable configuration is active, a failed load leaves none.

S2: random histories of valid loads / invalid loads of every kind / reset /
reads / mutation attempts on the real Config singleton, compared after every
step with a reference machine {unset, set(values)}; effective values are
predicted by an independent deep merge of defaults <- file <- kwargs.
"""

from __future__ import annotations

import copy
import os
import random
import shutil
import tempfile
import tomllib
from pathlib import Path

ID = 'C18'
LEVEL = 'exploration'
RULE = ('random histories (4-25 steps) over {valid load via kwargs|file|both, invalid load '
        '(bad enum, wrong type, missing config file, missing performance model, missing '
        'engine file, missing weather dir, unknown nested key type), reset, read, mutation '
        'attempt at top level and nested, through the proxy and through Config.get()}; '
        'after every step the observable state (Config.get / proxy reads / probed values) '
        'is compared with a reference machine; expected values come from an independent '
        'deep merge; class = (step kind, state before, outcome)')
ASSUMPTIONS = [
    'keys are given in their documented lower-case spelling',
    'in-place mutation of list-valued fields is not demanded (beyond frozen=True)',
    'any exception counts as a refusal; which exception is recorded as evidence',
]
SHARD_TIMEOUT = {'quick': 600, 'thorough': 3600}
LEVEL_TEXT = ('Exploration by model-based runtime monitoring of the configuration '
              'singleton: every step of thousands of random histories is compared with a '
              'three-state reference machine, with every kind of failing load injected '
              'at every state.')
LEVEL_NOTE = 'Trusts pydantic validation and tomllib; single process-wide singleton per shard process.'
TECHNIQUE = 'online reference-state-machine checker over recorded load/reset/read/mutate histories'

INVALID_KINDS = ['bad-enum', 'wrong-type', 'missing-config-file', 'missing-performance-model',
                 'missing-engine-file', 'missing-weather-dir', 'nested-not-a-table']


def plan(tier, seed):
    per = 600 if tier == 'quick' else 20000
    return [{'seed': seed * 1000 + i, 'n': per} for i in range(16)]


def required(tier):
    cl = [f'invalid-load:{k}:unset->unset' for k in INVALID_KINDS]
    cl += [f'invalid-load:{k}:set->set' for k in INVALID_KINDS]
    cl += ['valid-load:after-failed-load', 'valid-load:unset->set', 'valid-load:set->refused',
           'reset', 'read:unset-refused', 'read:set', 'mutate:set-refused',
           'mutate:unset-refused', 'overlay:file+kwargs-nested',
           'route:constructor:unset->set', 'route:constructor:set->refused',
           'route:model_validate:unset->set', 'route:model_validate:set->refused',
           'threads:other-thread-sees-and-cannot-replace-the-active-configuration',
           'threads:configuration-loaded-in-another-thread-is-active-here',
           'overlay:list-valued-setting-in-file-and-kwargs',
           'questionable-load:with-warnings-as-errors', 'paths:relative-to-working-directory',
           'mutate:any-public-attribute:refused', 'mutate-any:config.emissions.enabled_species',
           'overlay:weather-directory-unset', 'valid-load:identical-to-the-active-configuration']
    return {'classes': cl, 'evaluations': 5000}


EMIS_CHOICES = {
    'co2_enabled': [True, False], 'h2o_enabled': [True, False], 'sox_enabled': [True, False],
    'nox_method': ['BFFM2', 'p3t3', 'none', 'P3T3', 'bffm2'],
    'hc_method': ['BFFM2', 'none', 'NONE'], 'co_method': ['bffm2', 'none'],
    'pmvol_method': ['fuel_flow', 'FOA3', 'none'],
    'pmnvol_method': ['MEEM', 'scope11', 'foa3', 'none'],
    'climb_descent_mode': ['trajectory', 'lto', 'LTO'],
    'apu_enabled': [True, False], 'gse_enabled': [True, False],
    'lifecycle_enabled': [True, False], 'fuel': ['conventional_jetA', 'SAF', 'synthetic_jet'],
}


def toml_dump(d: dict) -> str:
    out, tables = [], []

    def val(v):
        if isinstance(v, bool):
            return 'true' if v else 'false'
        if isinstance(v, int | float):
            return repr(v)
        if isinstance(v, list):
            return '[' + ', '.join(val(x) for x in v) + ']'
        return '"' + str(v).replace('\\', '\\\\').replace('"', '\\"') + '"'
    for k, v in d.items():
        if isinstance(v, dict):
            tables.append((k, v))
        else:
            out.append(f'{k} = {val(v)}')
    for k, v in tables:
        out.append(f'\n[{k}]')
        for k2, v2 in v.items():
            out.append(f'{k2} = {val(v2)}')
    return '\n'.join(out) + '\n'


def ref_merge(base: dict, over: dict) -> dict:
    """Independent recursive overlay (returns a new dict)."""
    res = copy.deepcopy(base)
    for k, v in over.items():
        if isinstance(v, dict) and isinstance(res.get(k), dict):
            res[k] = ref_merge(res[k], v)
        else:
            res[k] = copy.deepcopy(v)
    return res


class Machine:
    def __init__(self, rng, hdir: Path, rec):
        from vlib import boot

        self.rng, self.hdir, self.rec = rng, hdir, rec
        self.state = None          # None = unset, dict = expected effective values
        self.home = os.getcwd()
        self.last_failed = False
        self.log: list = []
        self.defaults = tomllib.loads(
            (boot.REPO_PKG_DATA / 'default_config.toml').read_text(encoding='utf-8'))
        self.search = [str(hdir), str(boot.REPO_TEST_DATA), str(boot.REPO_PKG_DATA)]
        # a working directory that is NOT on the search path, holding files a user may name
        # relative to it
        self.outside = Path(str(hdir) + '-cwd')
        if not (self.outside / 'local').exists():
            (self.outside / 'local').mkdir(parents=True)
            shutil.copy(boot.REPO_PKG_DATA / 'engines' / 'sample_edb.xlsx',
                        self.outside / 'local' / 'edb_c.xlsx')
            shutil.copy(boot.REPO_PKG_DATA / 'performance' / 'sample_performance_model.toml',
                        self.outside / 'local' / 'model_c.toml')

    # -- generators ---------------------------------------------------------------
    def gen_overlay(self, allow_paths=True, allow_none=False) -> dict:
        rng = self.rng
        o: dict = {}
        em = {k: rng.choice(v) for k, v in EMIS_CHOICES.items() if rng.random() < 0.3}
        if em:
            o['emissions'] = em
        wx = {}
        if rng.random() < 0.3:
            wx['use_weather'] = rng.choice([True, False])
        if allow_paths and rng.random() < 0.2:
            wx['weather_data_dir'] = rng.choice(['weather', 'wx2'])
        elif allow_paths and allow_none and rng.random() < 0.15:
            # no weather directory at all (legal: the setting is optional; only keyword
            # arguments can say so, TOML has no null)
            wx['weather_data_dir'] = None
            wx['use_weather'] = False
        if wx:
            o['weather'] = wx
        if allow_paths and rng.random() < 0.2:
            o['performance_model'] = rng.choice(
                ['performance/sample_performance_model.toml', 'perf2/model_b.toml'])
        if allow_paths and rng.random() < 0.15:
            o['engine_file'] = rng.choice(['engines/sample_edb.xlsx', 'eng2/edb_b.xlsx'])
        return o

    def fail(self, mechanism, **detail):
        from vlib.storeops import Mismatch
        detail['log_tail'] = self.log[-14:]
        detail['state_before'] = 'set' if self.state is not None else 'unset'
        raise Mismatch(mechanism, detail)

    # -- observation of the real state ------------------------------------------
    def observe(self, where: str):
        from AEIC.config import Config, config

        self.rec.ev()
        if self.state is None:
            try:
                Config.get()
                self.fail('a configuration is active although none should be',
                          where=where, via='Config.get()')
            except ValueError:
                pass
            try:
                _ = config.emissions
                self.fail('a configuration is active although none should be',
                          where=where, via='proxy read')
            except ValueError:
                pass
            return
        try:
            cfg = Config.get()
        except ValueError:
            self.fail('no configuration is active although one was loaded', where=where)
        exp = self.state
        # probe values at every nesting level
        probes = []
        for k, v in exp['emissions'].items():
            got = getattr(config.emissions, k)
            got_s = str(got).lower() if not isinstance(got, bool) else got
            exp_s = str(v).lower() if not isinstance(v, bool) else v
            probes.append((f'emissions.{k}', got_s, exp_s))
        probes.append(('weather.use_weather', cfg.weather.use_weather,
                       exp['weather']['use_weather']))
        _wd, _we = cfg.weather.weather_data_dir, exp['weather']['weather_data_dir']
        probes.append(('weather.weather_data_dir', None if _wd is None else Path(_wd).name,
                       None if _we is None else Path(_we).name))
        if _we is None:
            self.rec.cls('overlay:weather-directory-unset')
        probes.append(('performance_model', Path(config.performance_model).name,
                       Path(exp['performance_model']).name))
        probes.append(('engine_file', Path(cfg.engine_file).name,
                       Path(exp['engine_file']).name))
        if exp.get('__lists_from_kwargs__', True):
            probes.append(('path', [str(x) for x in cfg.path],
                           [str(Path(x).resolve()) for x in self.search]))
            probes.append(('data_path_overrides', [str(x) for x in cfg.data_path_overrides],
                           [str(Path(x).resolve()) for x in self.search[:2]]))
        for name, got, want in probes:
            if got != want:
                self.fail('effective configuration value differs from defaults<-file<-kwargs',
                          key=name, got=got, expected=want, where=where)
        for p in (cfg.performance_model, cfg.engine_file, cfg.weather.weather_data_dir):
            if p is None:
                continue
            if not Path(p).is_absolute() or not Path(p).exists():
                self.fail('configured path was not resolved to an existing absolute path',
                          path=str(p), where=where)

    # -- steps ------------------------------------------------------------------------
    def step_valid_load(self):
        from AEIC.config import Config

        rng = self.rng
        how = rng.choice(['kwargs', 'file', 'both'])
        file_o = self.gen_overlay() if how in ('file', 'both') else {}
        kw_o = self.gen_overlay(allow_none=True) if how in ('kwargs', 'both') else {}
        if how == 'both' and rng.random() < 0.6:
            # force a nested-key conflict: file and kwargs set different keys AND the same key
            file_o.setdefault('emissions', {})['nox_method'] = 'none'
            file_o['emissions']['sox_enabled'] = False
            kw_o.setdefault('emissions', {})['nox_method'] = 'P3T3'
            nested = True
        else:
            nested = False
        cfg_file = None
        file_lists = {}
        if how == 'both' and rng.random() < 0.5:
            # list-valued settings given in the file AND as keyword arguments: the keyword
            # arguments overlay (replace) the file's lists
            file_lists = {'path': [self.search[2]], 'data_path_overrides': [self.search[2]]}
            self.rec.cls('overlay:list-valued-setting-in-file-and-kwargs')
        if how in ('file', 'both'):
            cfg_file = self.hdir / f'cfg{rng.getrandbits(30):x}.toml'
            cfg_file.write_text(toml_dump({**file_lists, **file_o}))
        kwargs = dict(copy.deepcopy(kw_o))
        kwargs['path'] = list(self.search)
        kwargs['data_path_overrides'] = self.search[:2]
        expected = ref_merge(ref_merge(self.defaults, file_o), kw_o)
        # the class is documented as a singleton ("only one instance can be created"; an
        # instance is created "probably using the load method"): the other public routes to
        # an instance are the constructor and model_validate with complete data
        route = 'load' if how != 'kwargs' else rng.choice(['load', 'load', 'constructor',
                                                           'model_validate'])
        cwd_relative = route == 'load' and rng.random() < 0.2
        if cwd_relative:
            # files named relative to the current working directory (outside the search path);
            # the program changes directory after loading
            kw_o['engine_file'] = 'local/edb_c.xlsx'
            if rng.random() < 0.5:
                kw_o['performance_model'] = 'local/model_c.toml'
            kwargs = dict(copy.deepcopy(kw_o))
            kwargs['path'] = list(self.search)
            kwargs['data_path_overrides'] = self.search[:2]
            expected = ref_merge(ref_merge(self.defaults, file_o), kw_o)
            os.chdir(self.outside)
            self.rec.cls('paths:relative-to-working-directory')
        self.log.append(('valid-load', how, file_o, kw_o, route))
        was = self.state
        twin = False
        if was is not None and route == 'load' and not cwd_relative and rng.random() < 0.35:
            # a second load with EXACTLY the values of the active configuration (all paths
            # already absolute): still a second configuration, still refused
            try:
                dump = Config.get().model_dump()
                cfg_file = None
                kwargs = {k_: v_ for k_, v_ in dump.items()}
                kwargs['path'] = [str(x) for x in dump['path']]
                kwargs['data_path_overrides'] = [str(x) for x in dump['data_path_overrides']]
                twin = True
                self.rec.cls('valid-load:identical-to-the-active-configuration')
            except Exception:  # noqa: BLE001
                twin = False
        try:
            if route == 'load':
                Config.load(config_file=cfg_file, **kwargs)
            else:
                full = copy.deepcopy(expected)
                full['path'] = list(self.search)
                full['data_path_overrides'] = self.search[:2]
                if route == 'constructor':
                    Config(**full)
                else:
                    Config.model_validate(full)
            raised = None
        except Exception as e:  # noqa: BLE001
            raised = e
        finally:
            os.chdir(self.home)
        if was is None:
            if raised is not None:
                self.fail('a valid load was refused'
                          + (' after a failed load' if self.last_failed else ''),
                          error=f'{type(raised).__name__}: {str(raised)[:300]}',
                          after_failed_load=self.last_failed)
            self.state = expected
            self.rec.cls('valid-load:unset->set', f'valid-load:via-{how}',
                         f'route:{route}:unset->set')
            if self.last_failed:
                self.rec.cls('valid-load:after-failed-load')
            if nested:
                self.rec.cls('overlay:file+kwargs-nested')
        else:
            if raised is None:
                self.fail('loading while a configuration is active was accepted'
                          if route == 'load' else
                          'a second configuration instance was created while one is active',
                          route=route)
            self.rec.cls('valid-load:set->refused', f'route:{route}:set->refused',
                         f'refusal-type:{type(raised).__name__}')
        self.last_failed = False
        self.observe('after valid-load')

    def step_invalid_load(self):
        from AEIC.config import Config

        rng = self.rng
        kind = rng.choice(INVALID_KINDS)
        o = self.gen_overlay(allow_paths=False)
        cfg_file = None
        if kind == 'bad-enum':
            o.setdefault('emissions', {})[rng.choice(
                ['nox_method', 'pmvol_method', 'pmnvol_method', 'climb_descent_mode'])] = 'bogus'
        elif kind == 'wrong-type':
            if rng.random() < 0.5:
                o.setdefault('emissions', {})['co2_enabled'] = {'a': 1}
            else:
                o.setdefault('weather', {})['use_weather'] = [1, 2]
        elif kind == 'missing-config-file':
            cfg_file = self.hdir / 'does-not-exist.toml'
        elif kind == 'missing-performance-model':
            o['performance_model'] = 'performance/no_such_model.toml'
        elif kind == 'missing-engine-file':
            o['engine_file'] = 'engines/no_such_edb.xlsx'
        elif kind == 'missing-weather-dir':
            o.setdefault('weather', {})['weather_data_dir'] = 'no_such_weather_dir'
        elif kind == 'nested-not-a-table':
            o['emissions'] = 'not-a-table'
        via_file = kind != 'missing-config-file' and rng.random() < 0.4
        kwargs = {}
        if via_file:
            cfg_file = self.hdir / f'bad{rng.getrandbits(30):x}.toml'
            cfg_file.write_text(toml_dump(o))
        else:
            kwargs = copy.deepcopy(o)
        kwargs['path'] = list(self.search)
        kwargs['data_path_overrides'] = self.search[:2]
        self.log.append(('invalid-load', kind, 'file' if via_file else 'kwargs', o))
        was = 'set' if self.state is not None else 'unset'
        try:
            Config.load(config_file=cfg_file, **kwargs)
        except Exception as e:  # noqa: BLE001
            self.rec.cls(f'invalid-load:{kind}:{was}->{was}',
                         f'refusal-type:{type(e).__name__}')
        else:
            self.fail('an invalid load was accepted', kind=kind)
        self.last_failed = self.state is None
        # the decisive observation: nothing changed; if unset, it stays unset
        try:
            self.observe(f'after failed load ({kind})')
        except Exception as m:
            if getattr(m, 'mechanism', '') == 'a configuration is active although none ' \
                                              'should be':
                m.mechanism = 'a failed load left a configuration active'
                m.detail['kind'] = kind
            raise

    def step_questionable_load(self):
        """A load whose validity the property does not settle (the weather directory names an
        existing regular file; a path is given with a trailing separator ...).  Whatever the
        library decides: an accepted load makes exactly that configuration active, a refused
        one changes nothing and - if none was active - leaves none."""
        from AEIC.config import Config

        rng = self.rng
        o = self.gen_overlay(allow_paths=False)
        what = rng.choice(['weather-dir-is-a-regular-file', 'weather-dir-is-a-regular-file',
                           'weather-off-and-dir-missing', 'unknown-top-level-setting',
                           'unknown-top-level-setting'])
        if what == 'weather-dir-is-a-regular-file':
            f = self.hdir / 'not_a_directory'
            f.write_text('x')
            o.setdefault('weather', {})['weather_data_dir'] = str(f)
            o['weather']['use_weather'] = True
        elif what == 'unknown-top-level-setting':
            o[rng.choice(['performence_model', 'engines_file', 'verbose'])] = 'x'
            o.setdefault('weather', {})['use_weather'] = False
        else:
            o.setdefault('weather', {})['weather_data_dir'] = 'no_such_weather_dir'
            o['weather']['use_weather'] = False
        kwargs = copy.deepcopy(o)
        kwargs['path'] = list(self.search)
        kwargs['data_path_overrides'] = self.search[:2]
        strict_warnings = rng.random() < 0.5      # python -W error / pytest filterwarnings=error
        self.log.append(('questionable-load', what, o, 'warnings-as-errors' if strict_warnings
                         else ''))
        was = self.state
        import warnings
        try:
            with warnings.catch_warnings():
                if strict_warnings:
                    warnings.simplefilter('error')
                Config.load(**kwargs)
            raised = None
        except Exception as e:  # noqa: BLE001
            raised = e
        if strict_warnings:
            self.rec.cls('questionable-load:with-warnings-as-errors')
        if raised is None:
            if was is not None:
                self.fail('loading while a configuration is active was accepted')
            # accepted: it is now the active configuration; only its existence and the
            # unambiguous values are observed
            try:
                cfg = Config.get()
            except ValueError:
                self.fail('a load returned normally but no configuration is active', what=what)
            if cfg.weather.use_weather != o['weather']['use_weather']:
                self.fail('effective configuration value differs from defaults<-file<-kwargs',
                          key='weather.use_weather', what=what)
            self.rec.cls(f'questionable-load:{what}:accepted')
            Config.reset()
            self.log.append(('reset',))
            self.state = None
            self.last_failed = False
            self.observe('after reset following a questionable load')
            return
        self.rec.cls(f'questionable-load:{what}:refused:{type(raised).__name__}')
        self.last_failed = self.state is None
        try:
            self.observe(f'after refused questionable load ({what})')
        except Exception as m:
            if getattr(m, 'mechanism', '') == 'a configuration is active although none ' \
                                              'should be':
                m.mechanism = 'a failed load left a configuration active'
                m.detail['kind'] = what
            raise

    def step_threads(self):
        """The one active configuration is the same for every thread of the process."""
        import threading

        from AEIC.config import Config, config

        out = {}

        def other():
            try:
                out['get'] = Config.get()
            except ValueError:
                out['get'] = None
            except Exception as e:  # noqa: BLE001
                out['get'] = e
            try:
                out['read'] = config.emissions.co2_enabled
            except ValueError:
                out['read'] = 'refused'
            try:
                kw = {'path': list(self.search), 'data_path_overrides': self.search[:2]}
                Config.load(**kw)
                out['load'] = 'accepted'
            except Exception as e:  # noqa: BLE001
                out['load'] = f'refused:{type(e).__name__}'
        t = threading.Thread(target=other)
        t.start()
        t.join()
        self.log.append(('other-thread', {k: str(v)[:40] for k, v in out.items()}))
        self.rec.ev()
        if self.state is not None:
            main_cfg = Config.get()
            if out['get'] is not main_cfg:
                self.fail('another thread does not see the active configuration',
                          seen=str(out['get'])[:80])
            if out['load'] == 'accepted':
                self.fail('loading while a configuration is active was accepted',
                          where='in another thread')
            if Config.get() is not main_cfg:
                self.fail('a load attempted in another thread replaced the active configuration')
            self.rec.cls('threads:other-thread-sees-and-cannot-replace-the-active-configuration')
        else:
            if out['get'] is not None or out['read'] != 'refused':
                self.fail('a configuration is active although none should be',
                          where='seen from another thread')
            if out['load'] != 'accepted':
                self.fail('a valid load was refused', where='in another thread',
                          error=out['load'])
            # the configuration loaded by the other thread is THE active configuration
            try:
                Config.get()
            except ValueError:
                self.fail('a configuration loaded in another thread is not active in this one')
            self.state = ref_merge(self.defaults, {})
            self.last_failed = False
            self.rec.cls('threads:configuration-loaded-in-another-thread-is-active-here')
        self.observe('after other-thread step')

    def step_reset(self):
        from AEIC.config import Config

        self.log.append(('reset',))
        Config.reset()
        self.state = None
        self.last_failed = False
        self.rec.cls('reset')
        self.observe('after reset')

    def step_read(self):
        self.log.append(('read',))
        self.observe('read')
        self.rec.cls('read:set' if self.state is not None else 'read:unset-refused')

    def step_mutate(self):
        from AEIC.config import Config, config

        rng = self.rng
        targets = [
            ('proxy.performance_model', lambda: setattr(config, 'performance_model', Path('/x'))),
            ('proxy.engine_file', lambda: setattr(config, 'engine_file', None)),
            ('proxy.weather', lambda: setattr(config, 'weather', None)),
            ('proxy.weather.use_weather',
             lambda: setattr(config.weather, 'use_weather',
                             not config.weather.use_weather)),
            ('proxy.emissions.nox_method',
             lambda: setattr(config.emissions, 'nox_method', 'none')),
            ('proxy.emissions.co2_enabled',
             lambda: setattr(config.emissions, 'co2_enabled',
                             not config.emissions.co2_enabled)),
            ('get().emissions.fuel', lambda: setattr(Config.get().emissions, 'fuel', 'zzz')),
            ('get().path', lambda: setattr(Config.get(), 'path', [])),
            ('get().weather.weather_data_dir',
             lambda: setattr(Config.get().weather, 'weather_data_dir', Path('/nowhere'))),
            ('del proxy.emissions.fuel', lambda: delattr(Config.get().emissions, 'fuel')),
        ]
        # ... and EVERY public attribute of the configuration and of its nested settings
        # (fields, properties, derived / cached values), by assignment and by deletion
        if self.state is not None and rng.random() < 0.6:
            cfg_ = Config.get()
            holders = [('config', cfg_), ('config.emissions', cfg_.emissions),
                       ('config.weather', cfg_.weather)]
            hname, obj = rng.choice(holders)
            names = [a for a in dir(type(obj)) if not a.startswith('_')
                     and not callable(getattr(type(obj), a, None))
                     and a not in ('model_fields', 'model_computed_fields', 'model_config',
                                   'model_extra', 'model_fields_set')]
            names += [a for a in getattr(type(obj), 'model_fields', {}) if a not in names]
            attr = rng.choice(sorted(names))
            try:
                before = repr(getattr(obj, attr))
            except Exception:  # noqa: BLE001
                before = None
            how = rng.choice(['assign', 'assign', 'delete'])
            self.log.append(('mutate-any', hname, attr, how))
            try:
                if how == 'assign':
                    setattr(obj, attr, rng.choice([None, 0, set(), 'x', []]))
                else:
                    delattr(obj, attr)
                accepted = True
            except Exception:  # noqa: BLE001
                accepted = False
            try:
                after = repr(getattr(obj, attr))
            except Exception:  # noqa: BLE001
                after = None
            self.rec.ev()
            if accepted or after != before:
                self.fail('an attribute assignment on the configuration was accepted',
                          target=f'{hname}.{attr}', how=how, before=str(before)[:80],
                          after=str(after)[:80])
            self.rec.cls('mutate:any-public-attribute:refused',
                         f'mutate-any:{hname}.{attr}')
            self.observe(f'after mutation attempt {hname}.{attr}')
            return
        name, fn = rng.choice(targets)
        self.log.append(('mutate', name))
        try:
            fn()
        except Exception as e:  # noqa: BLE001
            et = type(e).__name__
        else:
            self.fail('an attribute assignment on the configuration was accepted',
                      target=name)
        if self.state is None:
            self.rec.cls('mutate:unset-refused')
        else:
            self.rec.cls('mutate:set-refused', f'mutate:{name}:{et}')
        self.observe(f'after mutation attempt {name}')


def setup_data_dir(hdir: Path):
    from vlib import boot

    (hdir / 'wx2').mkdir()
    (hdir / 'perf2').mkdir()
    (hdir / 'eng2').mkdir()
    shutil.copy(boot.REPO_PKG_DATA / 'performance' / 'sample_performance_model.toml',
                hdir / 'perf2' / 'model_b.toml')
    shutil.copy(boot.REPO_PKG_DATA / 'engines' / 'sample_edb.xlsx', hdir / 'eng2' / 'edb_b.xlsx')


def run_shard(spec, rec):
    from AEIC.config import Config
    from vlib.storeops import Mismatch

    hdir = Path(tempfile.mkdtemp(prefix='c18-'))
    setup_data_dir(hdir)
    try:
        ks = [spec['only']] if 'only' in spec else range(spec['n'])
        for k in ks:
            rng = random.Random(f"{spec['seed']}-{k}")
            Config.reset()
            m = Machine(rng, hdir, rec)
            try:
                m.observe('start')
                for _ in range(rng.randint(4, 25)):
                    r = rng.random()
                    if r < 0.27:
                        m.step_valid_load()
                    elif r < 0.31:
                        m.step_questionable_load()
                    elif r < 0.35:
                        m.step_threads()
                    elif r < 0.55:
                        m.step_invalid_load()
                    elif r < 0.67:
                        m.step_reset()
                    elif r < 0.82:
                        m.step_read()
                    else:
                        m.step_mutate()
                if k < 2:
                    rec.sample({'history': m.log[:12]})
            except Mismatch as mm:
                rec.violation(mm.mechanism, mm.detail,
                              {'spec': {'seed': spec['seed'], 'n': spec['n']}, 'k': k})
            finally:
                Config.reset()
                for f in hdir.glob('*.toml'):
                    f.unlink()
    finally:
        shutil.rmtree(hdir, ignore_errors=True)
        shutil.rmtree(str(hdir) + '-cwd', ignore_errors=True)
