"""C14 — mission queries return exactly the flight instances matching the filter.

S3 + S2: the real Database/Query/Filter objects against a Python evaluation of
the same predicate over the joined tables (read once with plain SQL); every
query object is executed three times and its SQL built repeatedly (a query is
a value).
"""

from __future__ import annotations

import math
import random
import shutil
import sqlite3
import tempfile
from datetime import UTC, date, datetime, timedelta
from pathlib import Path

ID = 'C14'
LEVEL = 'exploration'
RULE = ('random Filter/Query/CountQuery/FrequentFlightQuery parameter combinations (ranges, '
        'type lists, airport/country/continent/bounding-box on origin, destination or either, '
        'inclusive dates, every-n-th day with and without start date, limit/offset, sampling, '
        'empty filter, illegal spatial mixes) on the shipped 1 197-instance database and on '
        'databases generated through the importer over the harness world; each result is '
        'compared with a Python evaluation of the predicate over the joined tables; each query '
        'object is executed 3 times and to_sql() is called repeatedly; class = (query kind, '
        'set of active conditions, execution number, database)')
ASSUMPTIONS = [
    'bounding-box edges are generated >= 1e-3 degrees away from every airport coordinate '
    '(the R-tree stores float32)',
    'ties in departure time may come in any order; with limit/offset the time stamps must '
    'equal the expected slice and the rows must come from the expected set',
    'list-valued conditions are non-empty (an empty list is neither "no condition" nor '
    'documented)',
    'sampling: returned rows are a subset of the unsampled answer with size inside a 6-sigma '
    'binomial band (each instance kept independently)',
]
SHARD_TIMEOUT = {'quick': 900, 'thorough': 5400}
LEVEL_TEXT = ('Exploration: differential runtime check of the real query layer against an '
              'independent Python predicate evaluator, including re-execution of the same '
              'query object.')
LEVEL_NOTE = 'Trusts sqlite3 for the plain table reads; tolerates ties as stated.'
TECHNIQUE = 'differential oracle (Python predicate over joined tables) + re-execution histories'


def plan(tier, seed):
    per = 500 if tier == 'quick' else 12000
    return [{'seed': seed * 1000 + i, 'n': per, 'db': 'shipped' if i % 2 == 0 else 'generated'}
            for i in range(16)]


def required(tier):
    cl = ['query:Query', 'query:CountQuery', 'query:FrequentFlightQuery', 'exec:1', 'exec:2',
          'exec:3', 'to_sql:repeatable', 'filter:empty', 'filter:none', 'refused:spatial-mix',
          'refused:offset-without-limit', 'cond:bounding_box', 'cond:continent', 'cond:country',
          'cond:airport', 'cond:dates', 'cond:every_nth', 'cond:every_nth+start',
          'cond:limit+offset', 'cond:sample', 'cond:ranges', 'cond:types', 'db:shipped',
          'db:generated', 'result:non-empty', 'result:empty', 'cond:zero-bound',
          'history:interleaved-consumption',
          'history:modified-copy-run-before-the-original-is-read',
          'cond:sample:very-small-fraction']
    return {'classes': cl, 'evaluations': 1500}


class Table:
    """The joined tables as Python records."""

    def __init__(self, path):
        con = sqlite3.connect(path)
        cont = dict(con.execute('SELECT code, continent FROM countries').fetchall())
        ap = {r[0]: r for r in con.execute(
            'SELECT id, iata_code, country, latitude, longitude FROM airports')}
        fl = {r[0]: r for r in con.execute(
            'SELECT id, carrier, flight_number, origin, destination, service_type, '
            'aircraft_type, engine_type, distance, seat_capacity FROM flights')}
        self.rows = []
        for sid, dep, arr, day, fid in con.execute(
                'SELECT id, departure_timestamp, arrival_timestamp, day, flight_id '
                'FROM schedules'):
            f = fl[fid]
            o, d = ap[f[3]], ap[f[4]]
            self.rows.append({
                'id': sid, 'dep': dep, 'arr': arr, 'day': dep // 86400, 'stored_day': day,
                'flight_id': fid, 'carrier': f[1], 'flight_number': f[2], 'service': f[5],
                'aircraft': f[6], 'engine': f[7], 'distance': f[8], 'seats': f[9],
                'o': o[1], 'o_country': o[2], 'o_cont': cont[o[2]], 'o_lat': o[3], 'o_lon': o[4],
                'd': d[1], 'd_country': d[2], 'd_cont': cont[d[2]], 'd_lat': d[3], 'd_lon': d[4]})
        con.close()
        self.airports = {a[1]: (a[3], a[4]) for a in ap.values()}
        self.min_day = min(r['day'] for r in self.rows)
        self.by_id = {r['id']: r for r in self.rows}


def as_list(v):
    return [v] if isinstance(v, str) else list(v)


def matches(r, f, start, end, every_nth, base_day):
    if f is not None:
        if f.min_distance is not None and not r['distance'] >= f.min_distance:
            return False
        if f.max_distance is not None and not r['distance'] <= f.max_distance:
            return False
        if f.min_seat_capacity is not None and not r['seats'] >= f.min_seat_capacity:
            return False
        if f.max_seat_capacity is not None and not r['seats'] <= f.max_seat_capacity:
            return False
        if f.service_type is not None and r['service'] not in as_list(f.service_type):
            return False
        if f.aircraft_type is not None and r['aircraft'] not in as_list(f.aircraft_type):
            return False
        for attr, ko, kd in (('airport', 'o', 'd'), ('country', 'o_country', 'd_country'),
                             ('continent', 'o_cont', 'd_cont')):
            both = getattr(f, attr)
            if both is not None and not (r[ko] in as_list(both) or r[kd] in as_list(both)):
                return False
            oo = getattr(f, 'origin_' + attr)
            if oo is not None and r[ko] not in as_list(oo):
                return False
            dd = getattr(f, 'destination_' + attr)
            if dd is not None and r[kd] not in as_list(dd):
                return False

        def inbox(b, lat, lon):
            return b.min_latitude <= lat <= b.max_latitude and \
                b.min_longitude <= lon <= b.max_longitude
        if f.bounding_box is not None and not (
                inbox(f.bounding_box, r['o_lat'], r['o_lon'])
                or inbox(f.bounding_box, r['d_lat'], r['d_lon'])):
            return False
        if f.origin_bounding_box is not None and not inbox(f.origin_bounding_box, r['o_lat'],
                                                           r['o_lon']):
            return False
        if f.destination_bounding_box is not None and not inbox(
                f.destination_bounding_box, r['d_lat'], r['d_lon']):
            return False
    if start is not None:
        t0 = int(datetime(start.year, start.month, start.day, tzinfo=UTC).timestamp())
        if r['dep'] < t0:
            return False
    if end is not None:
        t1 = int((datetime(end.year, end.month, end.day, tzinfo=UTC)
                  + timedelta(days=1)).timestamp())
        if r['dep'] >= t1:
            return False
    if every_nth is not None and every_nth > 1:
        if (r['day'] - base_day) % every_nth != 0:
            return False
    return True


def gen_filter(rng, T: Table):
    from AEIC.missions import BoundingBox, Filter

    kw, conds = {}, set()
    rows = T.rows
    pick = rng.choice(rows)
    if rng.random() < 0.3:
        a, b = sorted((rng.choice(rows)['distance'], rng.choice(rows)['distance']))
        if rng.random() < 0.7:
            kw['min_distance'] = a if rng.random() < 0.5 else a - rng.uniform(0, 50)
        if rng.random() < 0.7:
            kw['max_distance'] = b if rng.random() < 0.5 else b + rng.uniform(0, 50)
        conds.add('ranges')
    if rng.random() < 0.08:
        # bounds that are zero are bounds too
        z = rng.choice(['max_seat_capacity', 'max_distance', 'min_seat_capacity', 'min_distance'])
        kw[z] = 0
        conds.add('ranges')
        conds.add('zero-bound')
    elif rng.random() < 0.25:
        a, b = sorted((rng.choice(rows)['seats'], rng.choice(rows)['seats']))
        if rng.random() < 0.7:
            kw['min_seat_capacity'] = a
        if rng.random() < 0.7:
            kw['max_seat_capacity'] = b
        conds.add('ranges')
    if rng.random() < 0.25:
        vals = sorted({rng.choice(rows)['service'] for _ in range(rng.randint(1, 3))})
        kw['service_type'] = vals[0] if len(vals) == 1 and rng.random() < 0.5 else vals
        conds.add('types')
    if rng.random() < 0.25:
        vals = sorted({rng.choice(rows)['aircraft'] for _ in range(rng.randint(1, 3))}
                      | ({'ZZZ'} if rng.random() < 0.2 else set()))
        kw['aircraft_type'] = vals[0] if len(vals) == 1 and rng.random() < 0.5 else vals
        conds.add('types')

    def box_around(lat, lon):
        for _ in range(50):
            b = dict(min_latitude=lat - rng.uniform(0.01, 25), max_latitude=lat + rng.uniform(0.01, 25),
                     min_longitude=lon - rng.uniform(0.01, 40),
                     max_longitude=lon + rng.uniform(0.01, 40))
            ok = all(min(abs(la - b['min_latitude']), abs(la - b['max_latitude']),
                         abs(lo - b['min_longitude']), abs(lo - b['max_longitude'])) > 1e-3
                     for la, lo in T.airports.values())
            if ok:
                return BoundingBox(**b)
        return None

    def spatial_value(kind, side):
        key = {'o': 'o', 'd': 'd'}[side]
        if kind == 'airport':
            vals = sorted({rng.choice(rows)[key] for _ in range(rng.randint(1, 3))})
        elif kind == 'country':
            vals = sorted({rng.choice(rows)[key + '_country'] for _ in range(rng.randint(1, 2))})
        elif kind == 'continent':
            vals = sorted({rng.choice(rows)[key + '_cont'] for _ in range(rng.randint(1, 2))})
        else:
            r = rng.choice(rows)
            return box_around(r[key + '_lat'], r[key + '_lon'])
        if rng.random() < 0.15:
            vals = vals + ['QQ']
        return vals[0] if len(vals) == 1 and rng.random() < 0.5 else vals

    kinds = ['airport', 'country', 'continent', 'bounding_box']
    sp = rng.random()
    if sp < 0.3:
        kind = rng.choice(kinds)
        v = spatial_value(kind, rng.choice('od'))
        if v is not None:
            kw[kind] = v
            conds.add(kind)
    elif sp < 0.65:
        if rng.random() < 0.75:
            kind = rng.choice(kinds)
            v = spatial_value(kind, 'o')
            if v is not None:
                kw['origin_' + kind] = v
                conds.add(kind)
        if rng.random() < 0.75:
            kind = rng.choice(kinds)
            v = spatial_value(kind, 'd')
            if v is not None:
                kw['destination_' + kind] = v
                conds.add(kind)
    del pick
    return Filter(**kw), kw, conds


def run_shard(spec, rec):
    from AEIC.config import Config
    from AEIC.missions import CountQuery, Database, Filter, FrequentFlightQuery, Query
    from vlib import boot, world
    from vlib.storeops import Mismatch

    hdir = Path(tempfile.mkdtemp(prefix='c14-'))
    try:
        dbp = hdir / 'm.sqlite'
        if spec['db'] == 'shipped':
            shutil.copy(boot.REPO_TEST_DATA / 'missions' / 'oag-2019-test-subset.sqlite', dbp)
        else:
            from AEIC.missions.oag import CSVEntry, OAGDatabase
            from vlib import oaggen as og

            w = world.write_world(hdir)
            world.load_config(hdir)
            rng0 = random.Random(spec['seed'] // 1000 * 7 + 3)
            rows = []
            while len(rows) < 70:
                r = og.gen_row(rng0, w, 2021, len(rows) + 2)
                if r['_h']['skip'] is None and r['_h']['range_kind'] in (
                        'single', 'week', 'dst-spring', 'months'):
                    rows.append(r)
            og.write_csv(hdir / 'in.csv', rows)
            with OAGDatabase(str(dbp), 2021) as db:
                for e in CSVEntry.read(str(hdir / 'in.csv')):
                    db.add(e, commit=False)
                db.commit()
                db.index()
            Config.reset()
        T = Table(str(dbp))
        rec.cls(f'db:{spec["db"]}')
        db = Database(str(dbp))
        days = sorted({r['day'] for r in T.rows})
        d_lo = date(1970, 1, 1) + timedelta(days=days[0])
        d_hi = date(1970, 1, 1) + timedelta(days=days[-1])

        def rand_date(rng):
            if rng.random() < 0.5:
                return date(1970, 1, 1) + timedelta(days=rng.choice(days))
            return d_lo + timedelta(days=rng.randint(-3, (d_hi - d_lo).days + 3))

        ks = ([] if spec.get('only') == 'tiny-sample' else [spec['only']]) if 'only' in spec \
            else range(spec['n'])
        for k in ks:
            rng = random.Random(f"{spec['seed']}-{k}")
            case = {'spec': {kk: spec[kk] for kk in ('seed', 'n', 'db')}, 'k': k}
            try:
                # ---- refusals -------------------------------------------------------------
                if k % 15 == 0:
                    bad = rng.choice([
                        dict(country='US', origin_country='FR'),
                        dict(airport='LAX', destination_continent='EU'),
                        dict(origin_country='US', origin_airport='BOS'),
                        dict(continent='NA', country='US'),
                        dict(destination_country='US', destination_continent='NA'),
                    ])
                    rec.ev()
                    try:
                        list(db(Query(filter=Filter(**bad))))
                        raise Mismatch('an illegal mix of spatial conditions was accepted',
                                       {'filter': bad})
                    except ValueError:
                        rec.cls('refused:spatial-mix')
                    rec.ev()
                    try:
                        list(db(Query(offset=rng.randint(0, 5))))
                        raise Mismatch('offset without limit was accepted', {})
                    except ValueError:
                        rec.cls('refused:offset-without-limit')
                # ---- build a query ------------------------------------------------------------
                ftype = rng.random()
                if ftype < 0.12:
                    flt, fkw, conds = None, None, set()
                    rec.cls('filter:none')
                elif ftype < 0.24:
                    flt, fkw, conds = Filter(), {}, set()
                    rec.cls('filter:empty')
                else:
                    flt, fkw, conds = gen_filter(rng, T)
                start = rand_date(rng) if rng.random() < 0.35 else None
                end = rand_date(rng) if rng.random() < 0.35 else None
                if start or end:
                    conds.add('dates')
                qkind = rng.choice(['Query', 'Query', 'CountQuery', 'FrequentFlightQuery'])
                every, sample, limit, offset = None, None, None, None
                if qkind == 'Query':
                    if rng.random() < 0.3:
                        every = rng.choice([1, 2, 3, 7, 10])
                        conds.add('every_nth+start' if start else 'every_nth')
                    if rng.random() < 0.2:
                        sample = rng.choice([1.0, 0.5, 0.25, 0.1, 0.9])
                        conds.add('sample')
                    if rng.random() < 0.35:
                        limit = rng.choice([1, 2, 5, 20, 100, 5000])
                        if rng.random() < 0.6:
                            offset = rng.choice([0, 1, 3, 10, 50, 3000])
                            conds.add('limit+offset')
                    q = Query(filter=flt, start_date=start, end_date=end, every_nth=every,
                              sample=sample, limit=limit, offset=offset)
                elif qkind == 'CountQuery':
                    q = CountQuery(filter=flt, start_date=start, end_date=end)
                else:
                    limit = rng.choice([1, 3, 20, 1000])
                    q = FrequentFlightQuery(filter=flt, start_date=start, end_date=end,
                                            limit=limit)
                base_day = (start - date(1970, 1, 1)).days if start is not None else T.min_day
                expected = sorted((r for r in T.rows
                                   if matches(r, flt, start, end, every, base_day)),
                                  key=lambda r: r['dep'])
                desc = {'query': qkind, 'filter': fkw, 'start': str(start), 'end': str(end),
                        'every_nth': every, 'sample': sample, 'limit': limit, 'offset': offset,
                        'expected_n': len(expected)}
                case['query'] = desc
                # ---- to_sql is repeatable ---------------------------------------------------------
                if rng.random() < 0.5:
                    rec.ev()
                    try:
                        s1 = q.to_sql()
                        s1 = (s1[0], list(s1[1]))
                        s2 = q.to_sql()
                        s2 = (s2[0], list(s2[1]))
                    except Exception as e:  # noqa: BLE001
                        raise Mismatch('building the SQL of a legal query raised',
                                       {'error': f'{type(e).__name__}: {e}', **desc})
                    if s1 != s2:
                        raise Mismatch('building the SQL twice gives different queries',
                                       {'first': s1, 'second': s2, **desc})
                    rec.cls('to_sql:repeatable')
                # ---- execute three times ------------------------------------------------------------
                for ex in (1, 2, 3):
                    rec.ev()
                    try:
                        res = db(q)
                        if qkind != 'CountQuery':
                            res = list(res)
                    except Exception as e:  # noqa: BLE001
                        raise Mismatch('executing a legal query raised',
                                       {'execution': ex, 'error': f'{type(e).__name__}: {e}',
                                        **desc})
                    d2 = {'execution': ex, **desc}
                    if qkind == 'CountQuery':
                        if res != len(expected):
                            raise Mismatch('count differs from the number of matching instances',
                                           {'got': res, **d2})
                    elif qkind == 'FrequentFlightQuery':
                        pairs = {}
                        for r in expected:
                            key = (min(r['o'], r['d']), max(r['o'], r['d']))
                            pairs[key] = pairs.get(key, 0) + 1
                        exp_counts = sorted(pairs.values(), reverse=True)[:limit]
                        got_counts = [x.number_of_flights for x in res]
                        if got_counts != exp_counts:
                            raise Mismatch('frequent-route counts differ / not in descending order',
                                           {'got': got_counts[:10], 'expected': exp_counts[:10],
                                            **d2})
                        seen = set()
                        for x in res:
                            key = (x.airport1, x.airport2)
                            if key in seen or pairs.get(key) != x.number_of_flights:
                                raise Mismatch('frequent-route pair wrong / direction dependent',
                                               {'pair': key, 'got': x.number_of_flights,
                                                'expected': pairs.get(key), **d2})
                            seen.add(key)
                    else:
                        ids = [x.id for x in res]
                        if len(set(ids)) != len(ids):
                            raise Mismatch('query returned the same instance twice', d2)
                        deps = [int(x.departure.timestamp()) for x in res]
                        if deps != sorted(deps):
                            raise Mismatch('results are not in departure-time order', d2)
                        exp_ids = {r['id'] for r in expected}
                        extra = [i for i in ids if i not in exp_ids]
                        if extra:
                            r0 = T.by_id.get(extra[0])
                            raise Mismatch('query returned an instance that does not match the '
                                           'conditions', {'instance': r0, 'n_extra': len(extra),
                                                          **d2})
                        if sample is not None and sample < 1.0:
                            n, p = len(expected), sample
                            lim_n = n if limit is None else None
                            if lim_n is not None:
                                # every instance is kept independently with probability p
                                sd = math.sqrt(n * p * (1 - p))
                                if abs(len(ids) - n * p) > 6 * sd + 1:
                                    raise Mismatch('sample size outside the 6-sigma binomial band',
                                                   {'got': len(ids), 'n': n, 'p': p, **d2})
                        else:
                            sl = expected
                            if limit is not None:
                                off = offset or 0
                                sl = expected[off:off + limit]
                            if deps != [r['dep'] for r in sl]:
                                missing = len(sl) - len(ids)
                                raise Mismatch('query result differs from the instances matching '
                                               'the conditions',
                                               {'got_n': len(ids), 'expected_slice_n': len(sl),
                                                'missing': missing, **d2})
                        for x in res[:5]:
                            r = T.by_id[x.id]
                            got = (x.origin, x.destination, x.origin_country, x.destination_country,
                                   x.carrier, str(x.flight_number), x.service_type,
                                   x.aircraft_type, x.distance, x.seat_capacity, x.flight_id,
                                   int(x.arrival.timestamp()))
                            want = (r['o'], r['d'], r['o_country'], r['d_country'], r['carrier'],
                                    str(r['flight_number']), r['service'], r['aircraft'],
                                    r['distance'], r['seats'], r['flight_id'], r['arr'])
                            if got != want:
                                raise Mismatch('result fields differ from the stored instance',
                                               {'got': got, 'expected': want, **d2})
                    rec.cls(f'exec:{ex}')
                # ---- interleaved consumption: another query runs while this one is read ----
                if qkind == 'Query' and sample is None and rng.random() < 0.5:
                    rec.ev()
                    gen = db(q)
                    first = [next(gen, None) for _ in range(rng.randint(0, 3))]
                    other = rng.choice(['count', 'query', 'frequent'])
                    if other == 'count':
                        db(CountQuery())
                    elif other == 'query':
                        g2 = db(Query(limit=rng.randint(1, 7)))
                        next(g2, None)
                        more = [next(gen, None)]
                        list(g2)
                        first += more
                    else:
                        list(db(FrequentFlightQuery(limit=3)))
                    rest = list(gen)
                    got_ids = [x.id for x in first + rest if x is not None]
                    sl = expected
                    if limit is not None:
                        off = offset or 0
                        sl = expected[off:off + limit]
                    got_deps = [T.by_id[i]['dep'] for i in got_ids if i in T.by_id]
                    if len(got_ids) != len(sl) or got_deps != [r['dep'] for r in sl] or \
                            any(i not in {r['id'] for r in expected} for i in got_ids):
                        raise Mismatch('a query\'s result changes when another query is executed '
                                       'while it is being read',
                                       {'got_n': len(got_ids), 'expected_n': len(sl),
                                        'other_query': other, **desc})
                    rec.cls('history:interleaved-consumption')
                # ---- a modified COPY of the query is built / run before this one is read ------
                if qkind == 'Query' and sample is None and rng.random() < 0.4:
                    import copy as _copy
                    import datetime as _dt
                    rec.ev()
                    sql1, par1 = q.to_sql()
                    snap = (str(sql1), list(par1))
                    g1 = db(q)                              # not started yet
                    q2 = _copy.copy(q)
                    q2.start_date = _dt.date(2019, rng.randint(1, 12), rng.randint(1, 28))
                    q2.end_date = q2.start_date + _dt.timedelta(days=rng.randint(0, 20))
                    q2.to_sql()
                    g2 = db(q2)
                    if (str(sql1), list(par1)) != snap:
                        raise Mismatch('the SQL / parameters a query returned change when a copy of '
                                       'the query is modified and built',
                                       {'before': snap[1][:8], 'after': list(par1)[:8], **desc})
                    r1 = list(g1)
                    list(g2)
                    sl = expected
                    if limit is not None:
                        off = offset or 0
                        sl = expected[off:off + limit]
                    got_ids = [x.id for x in r1]
                    got_deps = [T.by_id[i]['dep'] for i in got_ids if i in T.by_id]
                    if len(got_ids) != len(sl) or got_deps != [r['dep'] for r in sl] or \
                            any(i not in {r['id'] for r in expected} for i in got_ids):
                        raise Mismatch('a query started before a modified copy of it was run '
                                       'returns the copy\'s answer',
                                       {'got_n': len(got_ids), 'expected_n': len(sl), **desc})
                    rec.cls('history:modified-copy-run-before-the-original-is-read')
                rec.cls(f'query:{qkind}', 'result:' + ('non-empty' if expected else 'empty'))
                for c in conds:
                    rec.cls(f'cond:{c}')
                rec.cls('combo:' + qkind[0] + ':' + '+'.join(sorted(conds)))
                if k < 2:
                    rec.sample(desc)
            except Mismatch as m:
                rec.violation(m.mechanism, m.detail, case)
        # ---- very small sampling fractions (thinning a large schedule): judged on the total of
        # many repetitions, expected total about 4 -> Poisson band ------------------------------
        if 'only' not in spec or spec['only'] == 'tiny-sample':
            rng2 = random.Random(f"{spec['seed']}-tiny-sample")
            n_all = len(T.rows)
            p_small = rng2.choice([1e-5, 3e-5, 2e-6])
            reps = max(20, min(4000, int(round(4.0 / (n_all * p_small)))))
            lam = reps * n_all * p_small
            total = 0
            try:
                for _ in range(reps):
                    total += sum(1 for _x in db(Query(sample=p_small)))
            except Exception as e:  # noqa: BLE001
                rec.violation('a sampling query raised',
                              {'sample': p_small, 'error': f'{type(e).__name__}: {e}'},
                              {'spec': {'seed': spec['seed'], 'n': spec['n'], 'db': spec['db']},
                               'k': 'tiny-sample'})
                total = None
            rec.ev()
            if total is not None:
                hi = lam + 6 * math.sqrt(lam) + 4
                if total > hi:
                    rec.violation('sample size outside the 6-sigma band for a very small '
                                  'sampling fraction (summed over many repetitions)',
                                  {'sample': p_small, 'repetitions': reps, 'instances': n_all,
                                   'expected_total': lam, 'got_total': total, 'upper_bound': hi},
                                  {'spec': {'seed': spec['seed'], 'n': spec['n'],
                                            'db': spec['db']}, 'k': 'tiny-sample'})
                else:
                    rec.cls('cond:sample:very-small-fraction')
        db.close()
    finally:
        Config.reset()
        shutil.rmtree(hdir, ignore_errors=True)
