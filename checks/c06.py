"""C06 — the performance model reproduces its table and never extrapolates.

S3 on BasePerformanceModel.evaluate / PerformanceModel.from_data /
PTFData.load + build_performance_table, over generated tables and PTF files.
"""

from __future__ import annotations

import math
import os
import random
import shutil
import tempfile
from pathlib import Path

ID = 'C06'
LEVEL = 'exploration'
RULE = ('generated valid legacy tables (random FL sets per phase, three masses, values obeying '
        'the FL-only dependencies, shuffled rows, optional extra column) + the shipped sample '
        'table: every (FL, mass) node of every phase evaluated with altitude given as '
        'FL*FL_TO_METERS and as FL/METERS_TO_FL (exact values, accepted incl. lowest/highest '
        'FL); interior states bounded by the surrounding nodes and Lipschitz-continuous along '
        'FL and mass incl. across cell borders; bit-identical under other TAS/ROCD inputs, '
        'evaluation order and interleaved phases; outside FL range / mass range (climb, '
        'cruise) refused, descent independent of mass, min/max = extreme masses; harness '
        'PTF files -> PTFData.load -> build_performance_table -> model reproduces every PTF '
        'row after unit conversion; incomplete grids, a fourth mass, duplicated rows refused '
        'at load; class = (phase, probe kind, altitude encoding)')
ASSUMPTIONS = [
    '"outside" states are generated >= 1e-6 (relative) beyond the table edge',
    'knots are converted with the library\'s documented 0.514444 m/s (checked to 2e-6 '
    'relative against 1852/3600)',
    'descent tables carry the nominal mass only (the documented PTF structure)',
]
SHARD_TIMEOUT = {'quick': 600, 'thorough': 3600}
LEVEL_TEXT = ('Exploration: runtime postconditions on the real evaluate()/from_data()/PTF '
              'pipeline over generated tables: node exactness, boundedness, continuity, '
              'purity, envelope refusal, load-time refusal.')
LEVEL_NOTE = 'Trusts scipy.interpolate.interpn for interior values only through the stated bounds.'
TECHNIQUE = 'postconditions + differential oracle (table lookup) on return values over generated tables'

KF_UNITS = 'C06-meters-feet-constant-not-inverse'


def plan(tier, seed):
    per = 25 if tier == 'quick' else 800
    return [{'seed': seed * 1000 + i, 'n': per} for i in range(16)]


def required(tier):
    cl = []
    for ph in ('climb', 'cruise', 'descent'):
        cl += [f'{ph}:node:metres-via-FL_TO_METERS', f'{ph}:node:metres-via-METERS_TO_FL',
               f'{ph}:top-node:metres-via-FL_TO_METERS', f'{ph}:bottom-node',
               f'{ph}:interior-bounded', f'{ph}:continuity', f'{ph}:outside-fl-refused',
               f'{ph}:purity']
    cl += ['climb:outside-mass-refused', 'cruise:outside-mass-refused',
           'descent:mass-ignored', 'mass:min', 'mass:max', 'ptf:row-reproduced',
           'load-refused:missing-row', 'load-refused:fourth-mass', 'load-refused:duplicate-row',
           'load-refused:row-replaced-by-a-copy-of-another',
           'load-refused:missing-row:per-phase-frames',
           'load-refused:row-replaced-by-a-copy-of-another:per-phase-frames',
           'table:built-from-per-phase-frames',
           'table:sample', 'table:generated', 'loaded:from-toml-file',
           'two-tables:same-grid-other-values', 'state-object:reused-across-models',
           'threads:four-evaluating-one-model',
           'result-object:modified-by-caller-then-same-state-again',
           'ptf:through-the-command-line-tool-into-an-existing-file',
           'table:values-do-not-vary-with-mass', 'ptf:row-with-blank-climb-cell']
    return {'classes': cl, 'evaluations': 3000}


def rel_eq(a, b, tol=1e-9):
    return abs(a - b) <= tol * max(abs(a), abs(b)) + 1e-12


def table_from_phase_frames(rows):
    import pandas as pd
    from AEIC.performance.models.legacy import PerformanceTable
    cols = ['fuel_flow', 'fl', 'tas', 'rocd', 'mass']
    parts = [pd.DataFrame([r for r in rows if sel(r[3])], columns=cols)
             for sel in (lambda x: x > 0, lambda x: x == 0, lambda x: x < 0)]
    df = pd.concat([p_ for p_ in parts if len(p_)])
    return PerformanceTable(df=df, fl=sorted(df.fl.unique().tolist()),
                            tas=sorted(df.tas.unique().tolist()),
                            rocd=sorted(df.rocd.unique().tolist()),
                            mass=sorted(df.mass.unique().tolist()))


def run_shard(spec, rec):
    os.environ['AEIC_PATH'] = os.environ.get('VERIF_REPO', '/repo') + '/tests/data'   # make_performance_model loads at import
    from AEIC.config import Config
    from vlib import boot, perfgen, world
    os.environ['AEIC_PATH'] = str(boot.REPO_TEST_DATA)
    Config.reset()
    import AEIC.commands.make_performance_model as mpm
    Config.reset()
    os.environ.pop('AEIC_PATH', None)
    from AEIC.parsers.ptf_reader import PTFData
    from AEIC.performance.models import PerformanceModel
    from AEIC.performance.types import AircraftState, SimpleFlightRules
    from AEIC.units import FL_TO_METERS, METERS_TO_FL
    from vlib.storeops import Mismatch

    hdir = Path(tempfile.mkdtemp(prefix='c06-'))
    world.load_config(hdir)
    RULES = {'climb': SimpleFlightRules.CLIMB, 'cruise': SimpleFlightRules.CRUISE,
             'descent': SimpleFlightRules.DESCEND}
    OUT = {'tas': 'true_airspeed', 'rocd': 'rate_of_climb', 'ff': 'fuel_flow'}

    def ev(model, ph, alt, mass, tas=None, rocd=None):
        p = model.evaluate(AircraftState(altitude=alt, aircraft_mass=mass, true_airspeed=tas,
                                         rate_of_climb=rocd), RULES[ph])
        return (p.true_airspeed, p.rate_of_climb, p.fuel_flow)

    def node_vals(t, ph, f, m):
        p = t[ph]
        mm = m if ph != 'descent' else p['masses'][0]
        return (p['tas'][f], p['rocd'][(f, mm)], p['ff'][(f, mm)])

    def check_table(model, t, rng, label, case):
        rec.cls(f'table:{label}')
        masses = t['masses']
        for ph in ('climb', 'cruise', 'descent'):
            p = t[ph]
            fls = p['fls']
            pm = p['masses'] if ph != 'descent' else masses
            # ---- (a) node exactness, both encodings ------------------------------------
            for f in fls:
                for m in pm:
                    want = node_vals(t, ph, f, m)
                    for enc, alt in (('metres-via-FL_TO_METERS', f * FL_TO_METERS),
                                     ('metres-via-METERS_TO_FL', f / METERS_TO_FL)):
                        rec.ev()
                        det = {'phase': ph, 'fl': f, 'mass': m, 'encoding': enc, 'altitude': alt,
                               'fl_range': [fls[0], fls[-1]], **case}
                        try:
                            got = ev(model, ph, alt, m)
                        except Exception as e:  # noqa: BLE001
                            edge = f in (fls[0], fls[-1])
                            back = alt * METERS_TO_FL
                            if edge and enc == 'metres-via-FL_TO_METERS' and \
                                    (back > fls[-1] or back < fls[0]) and rel_eq(back, f, 1e-7):
                                rec.finding(
                                    KF_UNITS, 'METERS_TO_FEET is not the inverse of '
                                    'FEET_TO_METERS: a tabulated edge flight level expressed '
                                    'in metres converts back to just outside the table and '
                                    'is rejected', {'error': f'{type(e).__name__}: {e}',
                                                    'back_converted_fl': back, **det}, case)
                                continue
                            raise Mismatch('a tabulated node was rejected',
                                           {'error': f'{type(e).__name__}: {str(e)[:120]}',
                                            **det})
                        if not all(rel_eq(g, w) for g, w in zip(got, want)):
                            back = alt * METERS_TO_FL
                            if enc == 'metres-via-FL_TO_METERS' and \
                                    all(rel_eq(g, w, 1e-5) for g, w in zip(got, want)) and \
                                    abs(back / f - 1.0) > 1e-9 if f else False:
                                rec.finding(
                                    KF_UNITS, 'METERS_TO_FEET is not the inverse of '
                                    'FEET_TO_METERS: node values are off by the conversion '
                                    'error', {'got': got, 'expected': want, **det}, case)
                                continue
                            raise Mismatch('node value differs from the table',
                                           {'got': got, 'expected': want, **det})
                        rec.cls(f'{ph}:node:{enc}')
                        if f == fls[-1]:
                            rec.cls(f'{ph}:top-node:{enc}')
                        if f == fls[0]:
                            rec.cls(f'{ph}:bottom-node')
            # ---- (b) interior: bounded and continuous ----------------------------------------
            for _ in range(25):
                i = rng.randrange(len(fls) - 1)
                f = rng.uniform(fls[i], fls[i + 1])
                if ph == 'descent':
                    m, corners = rng.uniform(masses[0], masses[-1]), \
                        [node_vals(t, ph, fls[i], 0), node_vals(t, ph, fls[i + 1], 0)]
                else:
                    j = rng.randrange(2)
                    m = rng.uniform(masses[j], masses[j + 1])
                    corners = [node_vals(t, ph, a, b) for a in (fls[i], fls[i + 1])
                               for b in (masses[j], masses[j + 1])]
                alt = f / METERS_TO_FL
                rec.ev()
                got = ev(model, ph, alt, m)
                for q in range(3):
                    lo = min(c[q] for c in corners)
                    hi = max(c[q] for c in corners)
                    sl = 1e-9 * max(abs(lo), abs(hi), 1.0)
                    if not (lo - sl <= got[q] <= hi + sl):
                        raise Mismatch('interior value outside the surrounding table values',
                                       {'phase': ph, 'fl': f, 'mass': m, 'output': q,
                                        'got': got[q], 'bounds': [lo, hi], **case})
                rec.cls(f'{ph}:interior-bounded')
            # continuity along FL across a cell border and inside cells
            for _ in range(12):
                i = rng.randrange(1, len(fls) - 1) if len(fls) > 2 else None
                m = masses[1] if ph == 'descent' else rng.uniform(masses[0], masses[-1])
                if i is not None and rng.random() < 0.5:
                    f0 = fls[i]
                else:
                    f0 = rng.uniform(fls[0], fls[-1])
                span = fls[-1] - fls[0]
                d = span * 10 ** rng.uniform(-9, -5)
                fa, fb = max(fls[0], f0 - d), min(fls[-1], f0 + d)
                ga = ev(model, ph, fa / METERS_TO_FL, m)
                gb = ev(model, ph, fb / METERS_TO_FL, m)
                rec.ev()
                for q in range(3):
                    # global Lipschitz bound along FL from the table itself
                    L = 0.0
                    for a, b in zip(fls, fls[1:]):
                        for mm in (t[ph]['masses']):
                            L = max(L, abs(node_vals(t, ph, b, mm)[q]
                                           - node_vals(t, ph, a, mm)[q]) / (b - a))
                    if abs(ga[q] - gb[q]) > L * (fb - fa) * 1.0001 + 1e-9 * max(1, abs(ga[q])):
                        raise Mismatch('result jumps between neighbouring altitudes',
                                       {'phase': ph, 'fl': [fa, fb], 'mass': m, 'output': q,
                                        'values': [ga[q], gb[q]], 'lipschitz': L, **case})
                rec.cls(f'{ph}:continuity')
            # ---- (c) purity ----------------------------------------------------------------------
            f = rng.uniform(fls[0], fls[-1])
            m = rng.uniform(masses[0], masses[-1])
            alt = f / METERS_TO_FL
            g1 = ev(model, ph, alt, m)
            other = rng.choice([x for x in ('climb', 'cruise', 'descent') if x != ph])
            try:
                ev(model, other, t[other]['fls'][0] / METERS_TO_FL, masses[1])
            except Exception:  # noqa: BLE001
                pass
            g2 = ev(model, ph, alt, m, tas=rng.uniform(0, 400), rocd=rng.uniform(-30, 30))
            g3 = ev(model, ph, alt, m, tas=-5.0, rocd=None)
            rec.ev()
            if not (g1 == g2 == g3):
                raise Mismatch('result depends on something other than altitude, mass and phase',
                               {'phase': ph, 'fl': f, 'mass': m, 'results': [g1, g2, g3], **case})
            rec.cls(f'{ph}:purity')
            # the caller works on the returned object (per-engine fuel flow, unit change ...) and
            # asks for the SAME state again: the answer is the table's, not the modified one
            st_same = AircraftState(altitude=alt, aircraft_mass=m)
            pa = model.evaluate(st_same, RULES[ph])
            try:
                pa.fuel_flow = pa.fuel_flow / 2.0 + 1.0
                pa.true_airspeed = -1.0
                pa.rate_of_climb = 12345.0
                modified = True
            except Exception:  # noqa: BLE001  (immutable results are fine)
                modified = False
            pb = model.evaluate(st_same, RULES[ph])
            rec.ev()
            if (pb.true_airspeed, pb.rate_of_climb, pb.fuel_flow) != g1:
                raise Mismatch('evaluate() returns an object the caller modified earlier instead '
                               'of the table values',
                               {'phase': ph, 'fl': f, 'mass': m, 'first': g1,
                                'second': [pb.true_airspeed, pb.rate_of_climb, pb.fuel_flow],
                                **case})
            if modified:
                rec.cls('result-object:modified-by-caller-then-same-state-again')
            # ---- (d) envelope --------------------------------------------------------------------
            for f_out in (fls[-1] * (1 + 10 ** rng.uniform(-6, -1)) + 1e-4,
                          fls[0] - max(1e-4, abs(fls[0]) * 10 ** rng.uniform(-6, -1)),
                          fls[-1] + rng.uniform(1, 200), fls[0] - rng.uniform(1, 50)):
                rec.ev()
                try:
                    g = ev(model, ph, f_out / METERS_TO_FL, masses[1])
                    raise Mismatch('state outside the table\'s altitude range was not rejected',
                                   {'phase': ph, 'fl': f_out, 'range': [fls[0], fls[-1]],
                                    'returned': g, **case})
                except Mismatch:
                    raise
                except Exception:  # noqa: BLE001
                    rec.cls(f'{ph}:outside-fl-refused')
            fmid = (fls[0] + fls[-1]) / 2
            for m_out in (masses[-1] * (1 + 10 ** rng.uniform(-6, -1)),
                          masses[0] * (1 - 10 ** rng.uniform(-6, -1))):
                rec.ev()
                if ph == 'descent':
                    g = ev(model, ph, fmid / METERS_TO_FL, m_out)
                    g0 = ev(model, ph, fmid / METERS_TO_FL, masses[1])
                    if g != g0:
                        raise Mismatch('descent result depends on mass', {'got': g, 'nominal': g0,
                                                                          **case})
                    rec.cls('descent:mass-ignored')
                else:
                    try:
                        g = ev(model, ph, fmid / METERS_TO_FL, m_out)
                        raise Mismatch('state outside the table\'s mass range was not rejected',
                                       {'phase': ph, 'mass': m_out,
                                        'range': [masses[0], masses[-1]], 'returned': g, **case})
                    except Mismatch:
                        raise
                    except Exception:  # noqa: BLE001
                        rec.cls(f'{ph}:outside-mass-refused')
            if ph != 'descent':
                rec.ev()
                if ev(model, ph, fmid / METERS_TO_FL, 'min') != ev(model, ph, fmid / METERS_TO_FL,
                                                                    masses[0]):
                    raise Mismatch("'min' mass is not the table's lowest mass", {'phase': ph,
                                                                                 **case})
                rec.cls('mass:min')
                if ev(model, ph, fmid / METERS_TO_FL, 'max') != ev(model, ph, fmid / METERS_TO_FL,
                                                                    masses[-1]):
                    raise Mismatch("'max' mass is not the table's highest mass", {'phase': ph,
                                                                                  **case})
                rec.cls('mass:max')

    try:
        ks = [spec['only']] if 'only' in spec else range(spec['n'])
        for k in ks:
            rng = random.Random(f"{spec['seed']}-{k}")
            case = {'spec': {'seed': spec['seed'], 'n': spec['n']}, 'k': k}
            try:
                # ---- generated table ---------------------------------------------------------
                t = perfgen.gen_table(rng)
                rows = perfgen.table_rows(t, rng)
                try:
                    md0 = perfgen.model_dict(rows, extra_col=rng.random() < 0.3,
                                             apu=rng.choice([None, 'APU 131-9']))
                    if rng.random() < 0.4:
                        # through a TOML file on disk, as a user would
                        import tomli_w
                        fpath = hdir / f'model{k}.toml'
                        with open(fpath, 'wb') as fh:
                            tomli_w.dump(md0, fh)
                        model = PerformanceModel.load(fpath)
                        rec.cls('loaded:from-toml-file')
                    else:
                        model = PerformanceModel.from_data(md0)
                except Exception as e:  # noqa: BLE001
                    raise Mismatch('a valid performance table was refused at load',
                                   {'error': f'{type(e).__name__}: {str(e)[:200]}', **case})
                check_table(model, t, rng, 'generated', case)
                if t.get('mass_independent_values'):
                    rec.cls('table:values-do-not-vary-with-mass')
                # a second table on the SAME (FL, mass) grid with other values, evaluated in the
                # same process: results must come from the table that is being evaluated
                t2 = perfgen.regen_values(rng, t)
                model2 = PerformanceModel.from_data(perfgen.model_dict(perfgen.table_rows(t2, rng)))
                for ph in ('climb', 'cruise', 'descent'):
                    for _ in range(4):
                        f = rng.choice(t2[ph]['fls'])
                        m = rng.choice(t2[ph]['masses'])
                        rec.ev()
                        got = ev(model2, ph, f / METERS_TO_FL, m)
                        want = (t2[ph]['tas'][f], t2[ph]['rocd'][(f, m)], t2[ph]['ff'][(f, m)])
                        if not all(rel_eq(g, ww) for g, ww in zip(got, want)):
                            raise Mismatch('node value differs from the table (second table on '
                                           'the same grid evaluated in the same process)',
                                           {'phase': ph, 'fl': f, 'mass': m, 'got': got,
                                            'expected': want, **case})
                        got1 = ev(model, ph, f / METERS_TO_FL, m)
                        want1 = (t[ph]['tas'][f], t[ph]['rocd'][(f, m)], t[ph]['ff'][(f, m)])
                        if not all(rel_eq(g, ww) for g, ww in zip(got1, want1)):
                            raise Mismatch('evaluating another table changed the results of the '
                                           'first one', {'phase': ph, 'fl': f, 'mass': m, **case})
                rec.cls('two-tables:same-grid-other-values')
                # one state object with a symbolic mass used on two models with other masses
                t3 = perfgen.gen_table(rng)
                model3 = PerformanceModel.from_data(perfgen.model_dict(perfgen.table_rows(t3)))
                for sym in ('min', 'max'):
                    ph = rng.choice(['climb', 'cruise'])
                    fa = rng.uniform(t[ph]['fls'][0], t[ph]['fls'][-1])
                    fb = rng.uniform(t3[ph]['fls'][0], t3[ph]['fls'][-1])
                    st_obj = AircraftState(altitude=fa / METERS_TO_FL, aircraft_mass=sym)
                    model.evaluate(st_obj, RULES[ph])
                    rec.ev()
                    if st_obj.aircraft_mass != sym:
                        raise Mismatch('evaluate() modified the caller\'s state object',
                                       {'mass_before': sym, 'mass_after': st_obj.aircraft_mass,
                                        **case})
                    st_obj.altitude = fb / METERS_TO_FL
                    p3 = model3.evaluate(st_obj, RULES[ph])
                    want = ev(model3, ph, fb / METERS_TO_FL,
                              t3['masses'][0] if sym == 'min' else t3['masses'][-1])
                    if (p3.true_airspeed, p3.rate_of_climb, p3.fuel_flow) != want:
                        raise Mismatch("symbolic mass does not mean this table's extreme mass when "
                                       'the state object was used on another model before',
                                       {'symbol': sym, 'phase': ph, **case})
                rec.cls('state-object:reused-across-models')
                # ---- several threads evaluate ONE model at the same time: the result must
                # depend only on (altitude, mass, phase), not on what other threads ask
                if k % 3 == 0:
                    import sys as _sys
                    import threading
                    ph = rng.choice(['climb', 'cruise', 'descent'])
                    fl_lo, fl_hi = t[ph]['fls'][0], t[ph]['fls'][-1]
                    m_lo, m_hi = t['masses'][0], t['masses'][-1]
                    queries = [[(rng.uniform(fl_lo, fl_hi) / METERS_TO_FL, rng.uniform(m_lo, m_hi))
                                for _ in range(150)] for _ in range(4)]
                    alone = [[ev(model, ph, a, m) for a, m in qs] for qs in queries]
                    wrong, errs = [], []
                    start = threading.Barrier(4)

                    def worker(i):
                        try:
                            start.wait()
                            for rep in range(3):
                                for j, (a, m) in enumerate(queries[i]):
                                    g = ev(model, ph, a, m)
                                    if g != alone[i][j]:
                                        wrong.append((i, j, g, alone[i][j]))
                        except Exception as e:  # noqa: BLE001
                            errs.append(f'{type(e).__name__}: {e}')
                    old_si = _sys.getswitchinterval()
                    _sys.setswitchinterval(1e-6)
                    try:
                        ths = [threading.Thread(target=worker, args=(i,)) for i in range(4)]
                        for th in ths:
                            th.start()
                        for th in ths:
                            th.join()
                    finally:
                        _sys.setswitchinterval(old_si)
                    rec.ev(4 * 450)
                    rec.count('evaluations_under_thread_contention', 4 * 450)
                    if errs:
                        raise Mismatch('evaluate() raised when several threads use one model',
                                       {'errors': errs[:3], 'phase': ph, **case})
                    if wrong:
                        i, j, g, w_ = wrong[0]
                        raise Mismatch('evaluate() returns another thread\'s answer when several '
                                       'threads use one model (result does not depend only on '
                                       'altitude, mass and phase)',
                                       {'phase': ph, 'query': queries[i][j], 'got': g,
                                        'alone': w_, 'n_wrong': len(wrong), **case})
                    rec.cls('threads:four-evaluating-one-model')
                if k == 0:
                    rec.sample({'masses': t['masses'], 'climb_fls': t['climb']['fls'],
                                'cruise_fls': t['cruise']['fls'],
                                'descent_fls': t['descent']['fls']})
                # ---- (f) invalid tables refused at load -----------------------------------------
                for kind in ('missing-row', 'fourth-mass', 'duplicate-row',
                             'row-replaced-by-a-copy-of-another'):
                    bad = [list(r) for r in perfgen.table_rows(t)]
                    ph = rng.choice(['climb', 'cruise'])
                    idx = [i for i, r in enumerate(bad)
                           if (r[3] > 0) == (ph == 'climb') and r[3] >= 0]
                    if kind == 'missing-row':
                        del bad[rng.choice(idx)]
                    elif kind == 'row-replaced-by-a-copy-of-another':
                        # same number of rows: one node twice, another one missing
                        i_, j_ = rng.sample(idx, 2)
                        bad[i_] = list(bad[j_])
                    elif kind == 'fourth-mass':
                        r = list(bad[rng.choice(idx)])
                        r[4] = t['masses'][-1] + 777.0
                        bad.append(r)
                    else:
                        bad.append(list(bad[rng.choice(idx)]))
                    rec.ev()
                    try:
                        PerformanceModel.from_data(perfgen.model_dict(bad))
                        raise Mismatch('an incomplete / over-complete table was accepted at load',
                                       {'kind': kind, 'phase': ph, **case})
                    except Mismatch:
                        raise
                    except Exception:  # noqa: BLE001
                        rec.cls(f'load-refused:{kind}')
                    # the same rows handed to the table object directly, as one data frame per
                    # phase glued together (pd.concat): the row labels of the pieces repeat
                    rec.ev()
                    try:
                        table_from_phase_frames(bad)
                        raise Mismatch('an incomplete / over-complete table was accepted when the '
                                       'table object is built from per-phase data frames '
                                       '(repeated row labels)', {'kind': kind, 'phase': ph, **case})
                    except Mismatch:
                        raise
                    except Exception:  # noqa: BLE001
                        rec.cls(f'load-refused:{kind}:per-phase-frames')
                if k % 4 == 0:
                    rec.ev()
                    good_rows = perfgen.table_rows(t)
                    try:
                        tb = table_from_phase_frames(good_rows)
                    except Exception as e:  # noqa: BLE001
                        raise Mismatch('a complete table built from per-phase data frames '
                                       '(repeated row labels) was refused',
                                       {'error': f'{type(e).__name__}: {str(e)[:200]}', **case})
                    from AEIC.performance.models.legacy import ROCDFilter
                    for ph_, flt in (('climb', ROCDFilter.POSITIVE), ('cruise', ROCDFilter.ZERO),
                                     ('descent', ROCDFilter.NEGATIVE)):
                        f_ = rng.choice(t[ph_]['fls'])
                        m_ = rng.choice(t[ph_]['masses'])
                        got = tb.interpolate(AircraftState(altitude=f_ * FL_TO_METERS,
                                                           aircraft_mass=m_), flt)
                        want = node_vals(t, ph_, f_, m_)
                        g3 = (got.true_airspeed, got.rate_of_climb, got.fuel_flow)
                        if not all(rel_eq(a, b) for a, b in zip(g3, want)):
                            raise Mismatch('tabulated node not reproduced by a table built from '
                                           'per-phase data frames (repeated row labels)',
                                           {'phase': ph_, 'fl': f_, 'mass': m_, 'got': list(g3),
                                            'expected': list(want), **case})
                    rec.cls('table:built-from-per-phase-frames')
                # ---- (e) PTF fidelity ----------------------------------------------------------------
                text, sp = perfgen.gen_ptf(rng)
                f = hdir / f'x{k}.PTF'
                f.write_text(text)
                ptf = PTFData.load(f)
                if k % 3 == 1:
                    # through the command-line tool, as a user would: an archive PTF file (old
                    # time stamp) is converted into a model file that ALREADY exists because
                    # another PTF file was converted into it a moment ago
                    import tomli_w
                    from click.testing import CliRunner
                    other_text, _ = perfgen.gen_ptf(rng)
                    f_other = hdir / f'y{k}.PTF'
                    f_other.write_text(other_text)
                    os.utime(f, (978307200, 978307200))            # 2001-01-01
                    lto_file = hdir / f'lto{k}.toml'
                    with open(lto_file, 'wb') as fh:
                        tomli_w.dump({'LTO_performance': perfgen.LTO}, fh)
                    out_model = hdir / f'cli_model{k}.toml'
                    for src in (f_other, f):
                        res = CliRunner().invoke(mpm.cli, [
                            '--output-file', str(out_model), 'legacy', '--lto-source', 'custom',
                            '--lto-file', str(lto_file), '--ptf-file', str(src),
                            '--aircraft-class', 'narrow', '--number-of-engines', '2'])
                        if res.exit_code != 0:
                            raise Mismatch('the model-file tool failed on a well-formed PTF file',
                                           {'exit_code': res.exit_code,
                                            'output': str(res.output)[-300:],
                                            'exception': repr(res.exception)[:200], **case})
                    try:
                        m2 = PerformanceModel.load(out_model)
                    except Exception as e:  # noqa: BLE001
                        raise Mismatch('model file written by the tool was refused',
                                       {'error': f'{type(e).__name__}: {str(e)[:200]}', **case})
                    rec.cls('ptf:through-the-command-line-tool-into-an-existing-file')
                else:
                    tbl = mpm.build_performance_table(ptf)
                    md = perfgen.model_dict([])
                    md['flight_performance'] = tbl
                    md['maximum_altitude_ft'] = ptf.maximum_altitude_ft
                    try:
                        m2 = PerformanceModel.from_data(md)
                    except Exception as e:  # noqa: BLE001
                        raise Mismatch('model built from a well-formed PTF file was refused',
                                       {'error': f'{type(e).__name__}: {str(e)[:200]}',
                                        'ptf_head': text[:600], **case})
                rec.ev()
                if (ptf.low_mass, ptf.nominal_mass, ptf.high_mass, ptf.maximum_altitude_ft,
                        ptf.maximum_payload) != (sp['low'], sp['nom'], sp['high'],
                                                 sp['max_alt'], sp['payload']):
                    raise Mismatch('PTF header values parsed wrongly',
                                   {'got': [ptf.low_mass, ptf.nominal_mass, ptf.high_mass,
                                            ptf.maximum_altitude_ft, ptf.maximum_payload],
                                    'expected': sp, **case})
                KT, FPM = 1852.0 / 3600.0, 0.3048 / 60.0
                masses = {'lo': sp['low'], 'nom': sp['nom'], 'hi': sp['high']}
                for fl, r in sp['rows'].items():
                    alt = fl * FL_TO_METERS if rng.random() < 0.5 else fl / METERS_TO_FL
                    probes = []
                    if 'climb' in r:
                        c = r['climb']
                        for tag, ro in (('lo', c[1]), ('nom', c[2]), ('hi', c[3])):
                            probes.append(('climb', masses[tag],
                                           (c[0] * KT, ro * FPM, c[4] / 60.0)))
                    else:
                        rec.cls('ptf:row-with-blank-climb-cell')
                    d = r['descent']
                    probes.append(('descent', masses['nom'], (d[0] * KT, -d[1] * FPM, d[2] / 60.0)))
                    if 'cruise' in r:
                        cr = r['cruise']
                        for tag, ffv in (('lo', cr[1]), ('nom', cr[2]), ('hi', cr[3])):
                            probes.append(('cruise', masses[tag], (cr[0] * KT, 0.0, ffv / 60.0)))
                    for ph, mass, want in probes:
                        rec.ev()
                        try:
                            got = ev(m2, ph, alt, float(mass))
                        except Exception as e:  # noqa: BLE001
                            fls_ph = sorted(x for x, rr in sp['rows'].items()
                                            if ph == 'descent' or ph in rr)
                            back = alt * METERS_TO_FL
                            if fl in (fls_ph[0], fls_ph[-1]) and (back > fls_ph[-1]
                                                                  or back < fls_ph[0]):
                                rec.finding(KF_UNITS, 'METERS_TO_FEET is not the inverse of '
                                            'FEET_TO_METERS: edge PTF row rejected',
                                            {'fl': fl, 'phase': ph, 'error': str(e)[:100]}, case)
                                continue
                            raise Mismatch('a PTF row cannot be evaluated in the generated model',
                                           {'fl': fl, 'phase': ph, 'mass': mass,
                                            'error': f'{type(e).__name__}: {str(e)[:150]}',
                                            **case})
                        tol = (2e-6, 1e-9, 1e-9)
                        if not all(rel_eq(g, w, tl) or (abs(g - w) < 5e-6 * abs(w) and
                                                        alt != fl / METERS_TO_FL)
                                   for g, w, tl in zip(got, want, tol)):
                            raise Mismatch('model generated from a PTF file does not reproduce a '
                                           'PTF row', {'fl': fl, 'phase': ph, 'mass': mass,
                                                       'got': got, 'expected': want,
                                                       'printed': r, **case})
                        rec.cls('ptf:row-reproduced')
            except Mismatch as m:
                rec.violation(m.mechanism, m.detail, case)
        # ---- the shipped sample table --------------------------------------------------------------
        if 'only' not in spec and spec['seed'] % 4 == 0:
            rng = random.Random(spec['seed'])
            model = PerformanceModel.load(boot.REPO_PKG_DATA / 'performance' /
                                          'sample_performance_model.toml')
            df = model.performance_table.df
            t = {'masses': sorted(float(x) for x in df.mass.unique())}
            for ph, sel in (('climb', df[df.rocd > 1e-6]), ('cruise', df[abs(df.rocd) <= 1e-6]),
                            ('descent', df[df.rocd < -1e-6])):
                ms = sorted(float(x) for x in sel.mass.unique())
                t[ph] = {'fls': sorted(float(x) for x in sel.fl.unique()), 'masses': ms,
                         'tas': {float(r.fl): float(r.tas) for r in sel.itertuples()},
                         'rocd': {(float(r.fl), float(r.mass)): float(r.rocd)
                                  for r in sel.itertuples()},
                         'ff': {(float(r.fl), float(r.mass)): float(r.fuel_flow)
                                for r in sel.itertuples()}}
            try:
                check_table(model, t, rng, 'sample', {'table': 'sample_performance_model.toml'})
            except Mismatch as m:
                rec.violation(m.mechanism, m.detail, {'spec': spec, 'k': 'sample'})
    finally:
        Config.reset()
        shutil.rmtree(hdir, ignore_errors=True)
