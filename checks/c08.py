"""C08 — lookup by flight identifier returns exactly the matching trajectory.

S2: histories on identified stores (random, unsorted, negative and > 2^31 ids)
with get_flight compared against a dict model; lookups while the index is
stale, in append sessions, after reopen, and across the seams of merged stores;
the all-or-nothing identification rule is probed in create and append sessions.
"""

from __future__ import annotations

import random
import shutil
import tempfile
from pathlib import Path

ID = 'C08'
LEVEL = 'exploration'
RULE = ('random histories of add(distinct unsorted ids)/get_flight(hit|miss)/sync/close/'
        'reopen(read|append) on real identified stores plus merges of 2-5 such stores; '
        'every lookup compared with a dict id->trajectory; mixed identified/unidentified '
        'additions must be refused in create and append sessions; a class is (lookup '
        'hit|miss, session kind, index stale|fresh) or a rule probe kind')
ASSUMPTIONS = [
    'flight ids are distinct within a store (the documented precondition)',
    'all store work happens in the main thread of a fresh process per shard',
]
CRASH_IS_VIOLATION = True   # a native crash of netCDF4/HDF5 under the store workload
SHARD_TIMEOUT = {'quick': 600, 'thorough': 3600}
LEVEL_TEXT = ('Exploration by model-based runtime monitoring: short random histories on '
              'real stores with a dict model of flight ids; lookups are forced while the '
              'lazy index is stale, in append sessions, after reopen and across merged '
              'seams. Held on the histories observed.')
LEVEL_NOTE = 'Trusts netCDF4/HDF5; ids distinct; single-threaded.'
TECHNIQUE = 'online reference-model (dict) checker over recorded API histories'


def plan(tier, seed):
    per = 12 if tier == 'quick' else 300
    return [{'seed': seed * 1000 + i, 'n': per} for i in range(16)] + \
        [{'seed': seed * 1000 + 99, 'n': 0, 'big': 300 if tier == 'quick' else 33000}]


def required(tier):
    return {
        'classes': [
            'lookup:hit:create_file:stale', 'lookup:hit:append:stale',
            'lookup:hit:append:fresh', 'lookup:hit:read:fresh', 'lookup:miss:append:stale',
            'lookup:hit:merged', 'lookup:miss:merged', 'rule:create:unidentified-into-identified',
            'rule:create:identified-into-unidentified', 'rule:append:identified-into-unidentified',
            'rule:append:unidentified-into-identified', 'rule:lookup-on-unidentified-refused',
            'in-memory:lookup', 'in-memory:saved-then-lookup', 'in-memory:closed',
            'in-memory:sync-before-save',
            'big-store:more-than-255-trajectories' if tier == 'quick' else
            'big-store:more-than-32767-trajectories',
        ],
        'counters': {'lookups_while_stale': 20, 'lookups_in_append': 20,
                     'merged_seam_lookups': 10},
        'evaluations': 500,
    }


def history(rng, workdir, rec, k):
    from vlib.storeops import StoreHistory

    h = StoreHistory(rng, workdir, rec, identified=True,
                     cache_items=rng.choice([1, 2, None, None]), uid_base=k * 1000)
    try:
        h.open_session('create_file')
        for _ in range(rng.randint(6, 40)):
            if h.store is None:
                h.open_session('append' if rng.random() < 0.7 else 'read')
                h.check_len()
                continue
            r = rng.random()
            n = len(h.model)
            if h.writable and r < 0.35:
                h.op_add()
                if rng.random() < 0.7:
                    h.op_lookup(known=rng.random() < 0.8)   # before any sync
            elif r < 0.70 and n > 0:
                h.op_lookup(known=rng.random() < 0.75)
            elif r < 0.78 and n > 0:
                h.op_get(rng.randrange(n))
            elif r < 0.84 and h.writable and n > 0:
                h.op_sync()
            elif r < 0.97 and n > 0:
                h.close()
        if h.store is not None and len(h.model) > 0:
            for fid in list(h.ids)[:6]:
                h.rng_choice = fid
            h.close()
            h.open_session('read')
            for _ in range(min(6, len(h.model))):
                h.op_lookup(known=True)
            h.op_lookup(known=False)
    finally:
        rec.count('histories')
        h.cleanup()
    return h


def rule_probes(rng, workdir, rec, k):
    """A store is either fully identified or not at all."""
    import numpy as np

    from AEIC.trajectories import TrajectoryStore
    from vlib import trajgen
    from vlib.storeops import Mismatch

    nprng = np.random.default_rng(rng.getrandbits(32))
    uid = [k * 1000 + 500]

    def mk(fid):
        uid[0] += 1
        return trajgen.make_base_traj(nprng, rng.randint(2, 6), uid[0], flight_id=fid)

    for first_identified in (True, False):
        p = workdir / f'r{rng.getrandbits(40):x}.nc'
        n0 = rng.randint(1, 4)
        st = TrajectoryStore.create(base_file=p)
        try:
            for j in range(n0):
                st.add(mk(100 + j if first_identified else None))
            # wrong kind in the create session
            try:
                st.add(mk(None if first_identified else 999))
                raise Mismatch('mixed identified/unidentified addition accepted',
                               {'session': 'create', 'store_identified': first_identified})
            except ValueError:
                rec.ev()
                rec.cls('rule:create:' + ('unidentified-into-identified'
                                          if first_identified else
                                          'identified-into-unidentified'))
            if not first_identified:
                try:
                    st.get_flight(100)
                    raise Mismatch('lookup on an unidentified store did not raise',
                                   {'session': 'create'})
                except RuntimeError:
                    rec.ev()
                    rec.cls('rule:lookup-on-unidentified-refused')
        finally:
            st.close()
        # wrong kind as the first addition of an append session
        st = TrajectoryStore.append(base_file=p)
        try:
            if rng.random() < 0.5:
                _ = st[0]
            try:
                st.add(mk(None if first_identified else 999))
                accepted = True
            except ValueError:
                accepted = False
            if accepted:
                raise Mismatch(
                    'mixed identified/unidentified addition accepted in an append session',
                    {'session': 'append', 'store_identified': first_identified, 'n0': n0})
            rec.ev()
            rec.cls('rule:append:' + ('unidentified-into-identified' if first_identified
                                      else 'identified-into-unidentified'))
            if not first_identified:
                try:
                    st.get_flight(100)
                    raise Mismatch('lookup on an unidentified store did not raise',
                                   {'session': 'append'})
                except RuntimeError:
                    rec.ev()
                    rec.cls('rule:lookup-on-unidentified-refused')
            # a right-kind add still works and is found
            t = mk(555 if first_identified else None)
            idx = st.add(t)
            if idx != n0:
                raise Mismatch('add returned wrong index', {'returned': idx, 'expected': n0})
            if first_identified:
                got = st.get_flight(555)
                if got is None or trajgen.fingerprint(got) != trajgen.fingerprint(t):
                    raise Mismatch('get_flight returned a different trajectory',
                                   {'flight_id': 555, 'session': 'append after refused add'})
        except Mismatch:
            try:
                st.close()
            except Exception:  # noqa: BLE001  (secondary damage of the reported mismatch)
                pass
            raise
        try:
            st.close()
        except Exception as e:  # noqa: BLE001
            raise Mismatch('close() raised',
                           {'error': f'{type(e).__name__}: {e}',
                            'after': 'rule probe in append session',
                            'store_identified': first_identified}) from None
        p.unlink(missing_ok=True)


def in_memory_lookups(rng, workdir, rec, k):
    """An identified store that only lives in memory (later saved)."""
    from vlib.storeops import StoreHistory

    h = StoreHistory(rng, workdir, rec, identified=True, cache_items=None, in_memory=True,
                     uid_base=k * 1000 + 300)
    try:
        h.open_session('create_mem')
        for _ in range(rng.randint(2, 5)):
            h.op_add()
            h.op_lookup(known=True)
        h.op_lookup(known=False)
        rec.cls('in-memory:lookup')
        if rng.random() < 0.75:
            if rng.random() < 0.5:
                h.op_sync()                 # sync of a store that is not on disk yet
                rec.cls('in-memory:sync-before-save')
            h.op_save()
            if rng.random() < 0.5:
                h.op_add()              # (an addition marks the index stale again)
            h.op_lookup(known=True)
            h.op_lookup(known=False)
            rec.cls('in-memory:saved-then-lookup')
        saved = h.session == 'create_file'
        h.close()
        rec.cls('in-memory:closed')
        if saved:
            h.open_session('read')
            for _ in range(min(4, len(h.model))):
                h.op_lookup(known=True)
            h.op_lookup(known=False)
            h.close()
    finally:
        h.cleanup()
    return h


def merged_lookups(rng, workdir, rec, k):
    import numpy as np

    from AEIC.trajectories import TrajectoryStore
    from vlib import trajgen
    from vlib.storeops import Mismatch

    nprng = np.random.default_rng(rng.getrandbits(32))
    nstores = rng.randint(2, 5)
    tag = f'{rng.getrandbits(40):x}'
    pool = rng.sample(range(-200, 2000), 40) + [2**33 + rng.randint(0, 99),
                                                -(2**35) - rng.randint(0, 99)]
    rng.shuffle(pool)
    paths, model, ids, seams = [], [], {}, []
    uid = k * 1000 + 700
    names = rng.sample(['zulu', 'alpha', 'mike', 'p_9', 'p_10', 'p_11', 'Bravo', 'a0'], nstores)
    for s in range(nstores):
        p = workdir / f'{names[s]}_{tag}.nc'     # deliberately not in lexicographic order
        st = TrajectoryStore.create(base_file=p)
        for _ in range(rng.randint(1, 6)):
            uid += 1
            fid = pool.pop()
            t = trajgen.make_base_traj(nprng, rng.randint(2, 6), uid, flight_id=fid)
            st.add(t)
            ids[fid] = len(model)
            model.append(trajgen.snapshot(t))
        st.close()
        seams.append(len(model))
        paths.append(p)
    out = workdir / f'm{tag}.aeic-store'
    TrajectoryStore.merge(out, input_stores=list(paths))
    st = TrajectoryStore.open(base_file=out, cache_size_mb=rng.choice([64, 0.002]))
    try:
        seam_idx = {i for s in seams for i in (s - 1, s) if 0 <= i < len(model)}
        for fid, pos in ids.items():
            got = st.get_flight(fid)
            rec.ev()
            exp = model[pos]
            if got is None:
                raise Mismatch('known flight id not found in merged store',
                               {'flight_id': fid, 'position': pos, 'seams': seams})
            if trajgen.fingerprint(got) != trajgen.fingerprint(exp):
                raise Mismatch('merged get_flight returned a different trajectory',
                               {'flight_id': fid, 'position': pos, 'seams': seams,
                                'got': trajgen.fingerprint(got),
                                'expected': trajgen.fingerprint(exp)})
            d = trajgen.compare(exp, got)
            if d:
                raise Mismatch('merged get_flight returned altered contents',
                               {'flight_id': fid, 'diffs': d[:5]})
            rec.cls('lookup:hit:merged')
            if pos in seam_idx:
                rec.count('merged_seam_lookups')
        for _ in range(5):
            fid = rng.randint(-300, 2100)
            if fid in ids:
                continue
            rec.ev()
            if st.get_flight(fid) is not None:
                raise Mismatch('unknown flight id returned a trajectory (merged store)',
                               {'flight_id': fid})
            rec.cls('lookup:miss:merged')
    finally:
        st.close()
        shutil.rmtree(out, ignore_errors=True)


def run_shard(spec, rec):
    from vlib.storeops import Mismatch

    workdir = Path(tempfile.mkdtemp(prefix='c08-'))
    if 'big' in spec:
        # one long identified store (more than 255 / 32 767 flights), see checks/c07.py
        from checks.c07 import big_store
        try:
            big_store(spec, rec, workdir, identified=True)
        except Mismatch as m:
            rec.violation(m.mechanism, m.detail, {'spec': dict(spec), 'k': 'big'})
        finally:
            shutil.rmtree(workdir, ignore_errors=True)
        return
    try:
        ks = [spec['only']] if 'only' in spec else range(spec['n'])
        for k in ks:
            for part, fn in (('history', history), ('rules', rule_probes),
                             ('merged', merged_lookups), ('in-memory', in_memory_lookups)):
                rng = random.Random(f"{spec['seed']}-{k}-{part}")
                try:
                    h = fn(rng, workdir, rec, k)
                    if k == 0 and part == 'history':
                        rec.sample({'history': h.log[:40], 'ids': list(h.ids)[:12]})
                except Mismatch as m:
                    m.detail['part'] = part
                    rec.violation(m.mechanism, m.detail,
                                  {'spec': {'seed': spec['seed'], 'n': spec['n']}, 'k': k})
    finally:
        shutil.rmtree(workdir, ignore_errors=True)
