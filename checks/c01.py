"""C01 — the emissions inventory balances: totals equal parts, parts equal EI x fuel.

S1/S3: the Emissions dataclass returned by the real compute_emissions is
re-summed independently (math.fsum) for generated trajectories x performance
model data x fuels x configurations.
"""

from __future__ import annotations

import random
import shutil
import tempfile
from pathlib import Path

ID = 'C01'
LEVEL = 'exploration'
RULE = ('generated cases = (trajectory: 2-400 points, arbitrary phase split incl. empty phases '
        'and windows covering everything, non-increasing fuel mass with zero-burn plateaus, '
        'altitudes to 25 km, Mach to 0.95, fuel flow 0..1.5x take-off) x (LTO/EDB/APU data: '
        'monotone / non-monotone / equal calibration flows, nvPM given / from smoke number / '
        'none, APU none / zero-fuel / normal, 4 aircraft classes, 1-4 engines) x (fuel: Jet-A, '
        'SAF, random) x (random option combination); oracle = independent re-summation: '
        'total = sum of parts (+life-cycle CO2), per-segment amount = EI x fuel burned and zero '
        'outside the accounting window, LTO amount = EI x time-in-mode x fuel flow, APU amount '
        '= EI x 900 s x flow, total fuel = window + LTO + APU + GSE fuel, CO2/H2O over '
        'trajectory+LTO = EI x fuel, NO+NO2+HONO = NOx, SO2+SO4 = SOx, all finite and >= 0; '
        'class = (accounting mode, window, zero-burn, stratospheric, APU kind, ...)')
ASSUMPTIONS = [
    'fuel mass is non-increasing and inputs are physically signed (non-negativity is only '
    'demanded then)',
    'trajectory top altitude >= 6 km (MEEM low-profile NaN is finding C12-meem-nan-low-top-altitude)',
    'configurations that are refused by name (see C11) are counted, not judged',
    'HC/CO certification data have an idle->approach log-log slope within +-12 (see C12)',
]
SHARD_TIMEOUT = {'quick': 900, 'thorough': 5400}
LEVEL_TEXT = ('Exploration: runtime postcondition (independent re-summation) on the real '
              'compute_emissions over generated trajectories, engine/APU data, fuels and '
              'option combinations.')
LEVEL_NOTE = 'ICAO times-in-mode and GSE nominal CO2 are written independently in the oracle.'
TECHNIQUE = 'postcondition / conservation monitor (independent re-summation) on return values'


def plan(tier, seed):
    per = 400 if tier == 'quick' else 10000
    return [{'seed': seed * 1000 + i, 'n': per} for i in range(16)] + \
        [{'seed': seed, 'n': 0, 'pytest': ['tests/test_emissions.py', 'tests/test_emissions_storage.py']}]


def required(tier):
    cl = ['mode:trajectory', 'mode:lto', 'window:empty', 'window:partial', 'window:full',
          'zero-burn:yes', 'zero-burn:no', 'stratospheric:yes', 'stratospheric:no',
          'length:2', 'apu:none', 'apu:zero-fuel', 'apu:normal', 'lifecycle:on',
          'lifecycle:off', 'class:wide', 'class:narrow', 'class:small', 'class:freight',
          'fuel:jetA', 'fuel:random', 'outcome:balanced', 'earlier-inventory:still-balanced',
          'contract:evaluated', 'workload:repository-tests-under-contract',
          'recompute:after-attaching-inventory-and-changing-fuel',
          'trajectory:optional-phases-populated', 'split:stale-counts']
    return {'classes': cl, 'counters': {'contract_evaluations': 1000}, 'evaluations': 1000}


def run_shard(spec, rec):
    if spec.get('pytest'):
        from vlib.pytest_contracts import run_repo_tests
        run_repo_tests('C01', spec['pytest'], rec)
        return
    import contextlib
    import io

    import icontract

    import AEIC.emissions as E
    import AEIC.emissions.emission as EM
    from AEIC.config import Config
    from vlib import emis

    hdir = Path(tempfile.mkdtemp(prefix='c01-'))
    state = {'cfg': None, 'problems': None}

    class Unbalanced(Exception):
        pass

    def balanced(pm, fuel, traj, result):
        """postcondition attached to the real function (shape S1)"""
        rec.count('contract_evaluations')
        state['problems'] = emis.check_inventory(result, pm, fuel, traj, state['cfg']) + \
            emis.check_switched_off(result, state['cfg'])
        return True          # record and return True (the verdict is taken by the harness)

    wrapped = icontract.ensure(balanced, error=Unbalanced, enabled=True)(EM.compute_emissions)
    E.compute_emissions = wrapped
    try:
        sink = io.StringIO()
        previous = None
        ks = [spec['only']] if 'only' in spec else range(spec['n'])
        for k in ks:
            rng = random.Random(f"{spec['seed']}-{k}")
            case = {'spec': {'seed': spec['seed'], 'n': spec['n']}, 'k': k}
            cfg = {key: rng.choice(v) for key, v in emis.OPTIONS.items()}
            if rng.random() < 0.3:
                cfg.update(nox_method='bffm2', pmnvol_method=rng.choice(['meem', 'scope11']))
            emis.run_config(cfg, hdir)
            pm = emis.gen_pm(rng, no_edb=rng.random() < 0.08)
            fuel, fuel_kind = emis.gen_fuel(rng)
            traj, td = emis.gen_traj(rng, pm)
            state['cfg'], state['problems'] = cfg, None
            rec.ev()
            try:
                with contextlib.redirect_stdout(sink):
                    em_now = E.compute_emissions(pm, fuel, traj)
            except Exception as e:  # noqa: BLE001
                if emis.classify_exception(e, cfg) == 'named-refusal':
                    rec.cls('outcome:refused-by-name')
                    continue
                if isinstance(e, RuntimeError) and 'Lifecycle CO2 data not available' in str(e) \
                        and fuel.lifecycle_CO2 is None:
                    rec.cls('outcome:refused:fuel-without-lifecycle-data')
                    continue
                if isinstance(e, ValueError) and emis.NO_EDB_MSG in str(e) \
                        and pm.desc['nvpm_data'] == 'no-engine-database-entry' \
                        and cfg['pmnvol_method'] in ('meem', 'scope11'):
                    rec.cls('outcome:refused:no-engine-database-entry')
                    continue
                import traceback
                tb = traceback.extract_tb(e.__traceback__)[-1]
                rec.violation(f'compute_emissions raised an internal error: {type(e).__name__} '
                              f'in {tb.name}', {'error': f'{type(e).__name__}: {str(e)[:200]}',
                                                'config': cfg, 'pm': pm.desc, 'trajectory': td},
                              case)
                continue
            rec.cls('contract:evaluated')
            # the inventory returned by the PREVIOUS call must still balance (results are values,
            # not views on shared state that later calls rewrite)
            if previous is not None:
                rec.ev()
                p_em, p_pm, p_fuel, p_traj, p_cfg, p_case = previous
                stale = emis.check_inventory(p_em, p_pm, p_fuel, p_traj, p_cfg)
                if stale:
                    mech, det = stale[0]
                    rec.violation('an inventory returned earlier no longer balances after a later '
                                  'computation: ' + mech, {**det, 'earlier_config': p_cfg,
                                                           'later_config': cfg}, p_case)
                else:
                    rec.cls('earlier-inventory:still-balanced')
            previous = (em_now, pm, fuel, traj, dict(cfg), case)
            probs = state['problems']
            if probs is None:
                rec.inconc('postcondition was not evaluated')
                continue
            if probs:
                mech, det = probs[0]
                rec.violation(mech, {**det, 'config': cfg, 'pm': pm.desc, 'trajectory': td,
                                     'fuel': fuel_kind, 'more': [p[0] for p in probs[1:4]]}, case)
                continue
            n = td['n']
            lto_mode = cfg['climb_descent_mode'] == 'lto'
            w = n if not lto_mode else n - td['n_climb'] - td['n_descent']
            rec.cls('outcome:balanced', f'mode:{cfg["climb_descent_mode"]}',
                    'window:' + ('empty' if w <= 0 else 'full' if w == n else 'partial'),
                    'zero-burn:' + ('yes' if td['zero_burn_segment'] else 'no'),
                    'stratospheric:' + ('yes' if td['stratospheric'] else 'no'),
                    f'apu:{pm.desc["apu"]}', 'lifecycle:' + ('on' if cfg['lifecycle_enabled']
                                                             else 'off'),
                    f'class:{pm.desc["class"]}', f'fuel:{fuel_kind.split("(")[0]}',
                    f'split:{td["split"]}', f'flows:{pm.desc["flows"]}',
                    f'nvpm:{pm.desc["nvpm_data"]}:{cfg["pmnvol_method"]}')
            if n == 2:
                rec.cls('length:2')
            if td.get('optional_phases'):
                rec.cls('trajectory:optional-phases-populated')
            # ---- the inventory is attached to the trajectory (as before writing it to a
            # store), the trajectory gets another fuel-mass profile (re-flown with another
            # load), and the emissions are computed again: the new inventory must balance
            # against the trajectory as it is NOW
            if rng.random() < 0.3:
                import numpy as _np
                try:
                    traj.add_fields(em_now)
                    attached = True
                except Exception as e:  # noqa: BLE001  (attaching is not part of this property)
                    attached = False
                    rec.cls(f'recompute:attach-unsupported:{type(e).__name__}')
                if attached:
                    burn2 = _np.array([0.0] + [rng.choice([0.0, rng.uniform(0, 300.0)])
                                               for _ in range(n - 1)])
                    fuel0 = float(burn2.sum()) + rng.uniform(0, 3000)
                    traj.fuel_mass = fuel0 - _np.cumsum(burn2)
                    traj.aircraft_mass = traj.fuel_mass + 41000.0
                    traj.total_fuel_mass = fuel0
                    traj.starting_mass = float(traj.aircraft_mass[0])
                    state['cfg'], state['problems'] = cfg, None
                    rec.ev()
                    try:
                        with contextlib.redirect_stdout(sink):
                            em2 = E.compute_emissions(pm, fuel, traj)
                    except Exception as e:  # noqa: BLE001
                        rec.violation('compute_emissions raised for a trajectory that already '
                                      f'carries an inventory: {type(e).__name__}',
                                      {'error': f'{type(e).__name__}: {str(e)[:200]}',
                                       'config': cfg}, case)
                        previous = None
                        continue
                    probs2 = emis.check_inventory(em2, pm, fuel, traj, cfg)
                    if probs2:
                        mech, det = probs2[0]
                        rec.violation('recomputed after the trajectory got another fuel profile: '
                                      + mech, {**det, 'config': cfg, 'trajectory': td}, case)
                    else:
                        rec.cls('recompute:after-attaching-inventory-and-changing-fuel')
                    previous = None
            if k < 2:
                rec.sample({'config': cfg, 'pm': pm.desc, 'trajectory': td, 'fuel': fuel_kind})
    finally:
        E.compute_emissions = EM.compute_emissions
        Config.reset()
        shutil.rmtree(hdir, ignore_errors=True)
