"""C05 — gridded pieces land in the cells the path actually crosses.

S3: same workload as C04; the oracle samples each segment's straight map line
densely, bins the samples with the grid's own half-open convention and compares
cell sets, path order, normalised per-cell shares and the altitude / time /
state values of every piece with the code's output.
"""

from __future__ import annotations

import math
import random

ID = 'C05'
LEVEL = 'exploration'
RULE = ('same generated grids and point sequences as C04; per segment the straight map line '
        '(unwrapped longitude for the antimeridian segment) is sampled at M points, binned '
        'with searchsorted(side=left)-1 and weighted by local geodesic length; compared with '
        'the code: set of cells (up to cells with oracle share < tau), cells in path order, '
        'per (segment, cell) share normalised per segment within tau = 2/M + 1e-4 + 0.5 % of '
        'the share + |map-line share - chord share|, altitude / time cell and every state value equal those of the segment\'s '
        'start point, all six outputs of equal length; class = (geometry kind, resolution '
        'bucket, axes)')
ASSUMPTIONS = [
    'shares are compared normalised per segment, so the chord-versus-arc excess bounded by '
    'C04 cannot leak into C05',
    'cells whose oracle share is below tau (corner grazing) may be present or absent',
    'points strictly inside the covered grid range; global longitude grids start at -pi',
]
SHARD_TIMEOUT = {'quick': 900, 'thorough': 5400}
LEVEL_TEXT = ('Exploration: differential runtime check of cell attribution against a '
              'brute-force sampling oracle over generated geometry.')
LEVEL_NOTE = 'Sampling resolution M bounds the attribution error that can be detected (tau).'
TECHNIQUE = 'differential oracle (dense sampling + binning) over generated geometry'

KF_DOGLEG = 'C05-antimeridian-split-at-start-latitude'


def plan(tier, seed):
    per = 250 if tier == 'quick' else 2500
    return [{'seed': seed * 1000 + i, 'n': per} for i in range(16)] + \
        [{'seed': seed * 1000 + 77, 'n': 0, 'huge': 70000 if tier == 'quick' else 200000}]


def required(tier):
    from vlib.gridwork import KINDS
    cl = [f'geom:{k}' for k in KINDS] + ['gridder:object-switched-to-another-grid', 'state-values:float-with-nan', 'state-values:int64-beyond-2**53', 'trajectory:more-than-65536-points', 'entry-point:older', 'entry-point:older:antimeridian', 'entry-point:older:antimeridian:time-without-altitude', 'axes:alt+time', 'axes:', 'segment:antimeridian',
                                         'segment:multi-cell', 'alt-cell', 'time-cell',
                                         'state-values']
    return {'classes': cl, 'counters': {'cell_share_comparisons': 2000}, 'evaluations': 800}


def judge(c, rec, Mismatch, case):
    import numpy as np

    from vlib import gridwork as gw

    if c.error:
        raise Mismatch('gridding a path inside the grid raised', {'error': c.error, **c.desc})
    if not c.len_ok:
        raise Mismatch('output arrays have different lengths', {'lengths': c.lengths, **c.desc})
    if c.input_mutated or c.regrid_differs:
        raise Mismatch('gridding a trajectory changes the caller\'s arrays, so gridding the same '
                       'trajectory again puts other shares into the cells',
                       {'arrays_changed': c.input_mutated, 'regrid_differs': c.regrid_differs,
                        **c.desc})
    M = c.M
    n_seg = len(c.lats) - 1
    for s in range(n_seg):
        pcs = c.pieces.get(s, [])
        is_cross = c.cross_seg == s
        order, shares, poly_len, seg_len = gw.sample_segment(
            c.lats[s], c.lons[s], c.lats[s + 1], c.lons[s + 1], c.lat_g, c.lon_g, M)
        det = {'segment': s, 'from_deg': [math.degrees(c.lats[s]), math.degrees(c.lons[s])],
               'to_deg': [math.degrees(c.lats[s + 1]), math.degrees(c.lons[s + 1])],
               'antimeridian': is_cross, **c.desc}
        rec.ev()
        if not pcs:
            raise Mismatch('a segment produced no piece at all', det)
        if 0.0 < seg_len < 1e-7:
            # fewer than ~30 coordinate quanta long: the sampling oracle cannot resolve it
            rec.cls('segment:below-oracle-resolution')
            continue
        # ---- altitude / time cell and state values of the segment's start point -----------
        for p in pcs:
            if c.alt_g is not None:
                want = float(c.alt_g[gw.cell_index(c.alt_g, c.alts[s])])
                if p['alt'] != want:
                    raise Mismatch('altitude cell is not that of the segment\'s start point',
                                   {'got': p['alt'], 'expected': want,
                                    'start_altitude': float(c.alts[s]), **det})
                rec.cls('alt-cell')
            if c.tim_g is not None:
                want = float(c.tim_g[gw.cell_index(c.tim_g, c.times[s])])
                if p['time'] != want:
                    raise Mismatch('time cell is not that of the segment\'s start point',
                                   {'got': p['time'], 'expected': want,
                                    'start_time': float(c.times[s]), **det})
                rec.cls('time-cell')
            for q in range(c.n_state):
                want_sv, got_sv = c.state[q][s], p['state'][q]
                if c.state[q].dtype.kind in 'iu':
                    same = int(got_sv) == int(want_sv) and float(got_sv) == float(int(got_sv))
                else:
                    same = (float(got_sv) == float(want_sv)) or (
                        math.isnan(float(got_sv)) and math.isnan(float(want_sv)))
                if not same:
                    raise Mismatch('state value is not that of the segment\'s start point',
                                   {'variable': q, 'got': repr(got_sv), 'expected': repr(want_sv),
                                    'state_kind': c.state_kinds[q], **det})
                rec.cls(f'state-values:{c.state_kinds[q]}')
            if c.n_state:
                rec.cls('state-values')
        # ---- shares ------------------------------------------------------------------------------
        # normalise the code's pieces of this segment (first integrated variable with v != 0;
        # if all are zero, shares cannot be observed for this segment)
        q = next((qq for qq in range(c.n_integ) if c.integ[qq][s] != 0.0), None)
        if q is None or seg_len == 0.0:
            continue
        tot = math.fsum(p['integ'][q] for p in pcs)
        if tot <= 0:
            continue
        got: dict = {}
        got_order: list = []
        for p in pcs:
            cell = p['cell']
            if cell[1] < 0:
                cell = (cell[0], len(c.lon_g) - 1)
            got[cell] = got.get(cell, 0.0) + p['integ'][q] / tot
            if not got_order or got_order[-1] != cell:
                got_order.append(cell)
        worst = None
        micro = False
        cnoise = gw.crossing_noise(c.lats[s], c.lons[s], c.lats[s + 1], c.lons[s + 1])
        if cnoise >= 1.0:
            rec.cls('segment:crossing-place-undetermined-by-the-coordinates')
        chord_shares = gw.sample_segment.chord_shares
        for cell in set(got) | set(shares):
            g, w = got.get(cell, 0.0), shares.get(cell, 0.0)
            wc = chord_shares.get(cell, 0.0)
            # "length lying in the cell" may be read along the map line (w) or as the
            # great-circle chord of the stay in the cell (wc, what the code measures): the
            # difference between the two readings is part of the tolerance
            tau = 2.0 / M + 1e-4 + 0.005 * max(g, w) + abs(w - wc)
            if seg_len > 0.0:                 # coordinate quantisation (about 3e-9 m)
                tau += min(0.3, 8 * 3e-9 / seg_len)
                micro = seg_len < 1e-2
            tau += cnoise
            rec.count('cell_share_comparisons')
            if abs(g - w) > tau and (worst is None or abs(g - w) > worst[0]):
                worst = (abs(g - w), cell, g, w, tau)
        if worst is not None:
            d2 = {'cell_lower_edges_deg': [math.degrees(c.lat_g[worst[1][0]]),
                                           math.degrees(c.lon_g[worst[1][1]])],
                  'share_reported': worst[2], 'share_of_length_in_cell': worst[3],
                  'tolerance': worst[4],
                  'cells_reported': len(got), 'cells_crossed': len(shares), **det}
            mech = ('a cell the path does not enter received a share' if worst[3] == 0.0 else
                    'a cell the path crosses received nothing' if worst[2] == 0.0 else
                    'share given to a cell differs from the share of the segment in that cell')
            if is_cross:
                # defect model of the listed finding: the segment is split at the START
                # point's latitude (dog-leg along a parallel) instead of where the straight
                # line meets the antimeridian
                if dogleg_explains(c, s, got, M, gw):
                    rec.finding(KF_DOGLEG, 'the antimeridian-crossing segment is split at the '
                                'start point\'s latitude (dog-leg) instead of at the latitude '
                                'where the straight line crosses: cells and shares of that '
                                'segment are misplaced', d2, case)
                    continue
                mech += ' (antimeridian segment)'
            raise Mismatch(mech, d2)
        # ---- path order -----------------------------------------------------------------------------
        # cells whose share is within what the coordinates determine at all (see
        # crossing_noise, micro segments) may legitimately be missing from the code's answer
        slack = cnoise + (min(0.3, 8 * 3e-9 / seg_len) if seg_len > 0.0 else 0.0)
        big = [cell for cell in order if shares[cell] > 4.0 / M + 2e-4 + slack]
        seq = [cell for cell in got_order if cell in set(big)]
        dedup = [x for i, x in enumerate(seq) if i == 0 or seq[i - 1] != x]
        bigd = [x for i, x in enumerate(big) if i == 0 or big[i - 1] != x]
        if dedup != bigd and not is_cross:
            raise Mismatch('cells of a segment are not reported in path order',
                           {'reported': got_order[:12], 'crossed_in_order': bigd[:12], **det})
        if len(shares) > 1:
            rec.cls('segment:multi-cell')
        if is_cross:
            rec.cls('segment:antimeridian')
    if getattr(c, 'reused_gridder', False):
        rec.cls('gridder:object-switched-to-another-grid')
    rec.cls('entry-point:' + ('older' if c.route != 'grid_trajectory' else 'grid_trajectory')
            + (':antimeridian' if c.cross_seg is not None else '')
            + (':time-without-altitude' if c.tim_g is not None and c.alt_g is None else ''))
    rec.cls(f'geom:{c.kind}', f'res:{c.grid["bucket"]}', f'axes:{c.desc["axes"]}',
            f'combo:{c.kind}:{c.grid["bucket"]}:{c.desc["axes"]}')


def dogleg_explains(c, s, got, M, gw):
    """Does 'start -> (start latitude, +-pi) then (start latitude, -+pi) -> end' reproduce the
    reported shares of the crossing segment?"""
    import numpy as np

    la1, lo1, la2, lo2 = c.lats[s], c.lons[s], c.lats[s + 1], c.lons[s + 1]
    east = lo1 > 0
    edge1 = gw.PI if east else -gw.PI
    edge2 = -edge1
    o1, s1, p1, L1 = gw.sample_segment(la1, lo1, la1, edge1 - (1e-12 if east else -1e-12),
                                       c.lat_g, c.lon_g, M)
    o2, s2, p2, L2 = gw.sample_segment(la1, edge2 + (1e-12 if not east else -1e-12) * -1,
                                       la2, lo2, c.lat_g, c.lon_g, M)
    f1 = float(gw.geod_len(la1, lo1, la1, edge1))
    f2 = float(gw.geod_len(la1, edge2, la2, lo2))
    if f1 + f2 == 0:
        return False
    # the code gives each piece (its geodesic length) / (f1 + f2): absolute lengths
    model: dict = {}
    for cell, sh in s1.items():
        model[cell] = model.get(cell, 0.0) + sh * p1
    for cell, sh in s2.items():
        model[cell] = model.get(cell, 0.0) + sh * p2
    tot = sum(model.values())
    for cell in set(model) | set(got):
        g, w = got.get(cell, 0.0), model.get(cell, 0.0) / tot
        if abs(g - w) > 4.0 / M + 1e-3 + 0.01 * max(g, w):
            return False
    return True


def run_shard(spec, rec):
    from vlib import gridwork as gw
    from vlib.storeops import Mismatch

    if 'huge' in spec:
        probs, desc = gw.huge_track(random.Random(f"huge-{spec['seed']}"), spec['huge'])
        rec.ev(spec['huge'])
        rec.count('points_in_longest_trajectory', spec['huge'])
        mine = [pr for pr in probs if any(w in pr[0] for w in ('does not contain', 'lengths', 'raised', 'no piece'))]
        for mech, det in mine[:1]:
            rec.violation(mech, det, {'spec': dict(spec), 'k': 'huge'})
        if not mine:
            rec.cls('trajectory:more-than-65536-points')
        return

    M = 2000 if spec.get('tier') == 'quick' else 20000
    ks = [spec['only']] if 'only' in spec else range(spec['n'])
    for k in ks:
        rng = random.Random(f"{spec['seed']}-{k}")
        case = {'spec': {'seed': spec['seed'], 'n': spec['n']}, 'k': k}
        c = gw.make_case(rng, k, M)
        if c.n_cross > 1:
            continue
        try:
            judge(c, rec, Mismatch, case)
            if k < 2:
                rec.sample(c.desc)
        except Mismatch as m:
            rec.violation(m.mechanism, m.detail, case)
