"""C09 — a merged store equals the concatenation of its input stores."""

from __future__ import annotations

import os
import random
import shutil
import tempfile
from pathlib import Path

ID = 'C09'
LEVEL = 'exploration'
RULE = ('generated merges of 1-6 real stores of uneven sizes 1-9 (explicit lists in '
        'non-alphabetical order and numbered patterns, with/without flight ids, '
        'with/without separately merged associated stores); the store opened on the '
        'merged directory is compared item by item (independent deep comparison) with the '
        'list concatenation of what was added, incl. both sides of every seam, one index '
        'beyond the end and id lookups; differing field sets and mixed identified/'
        'unidentified inputs must be refused with ValueError; class = (inputs, naming, '
        'ids, associated, cache) or refusal kind')
ASSUMPTIONS = ['input stores are valid closed single-file stores written by the real store',
               'single-threaded']
CRASH_IS_VIOLATION = True   # a native crash of netCDF4/HDF5 under the store workload
SHARD_TIMEOUT = {'quick': 600, 'thorough': 3600}
LEVEL_TEXT = ('Exploration: differential runtime check of merged stores against list '
              'concatenation over generated partitions; every index and every id is read '
              'back through the public API. Held on the merges observed.')
LEVEL_NOTE = 'Trusts netCDF4/HDF5 and the file system; inputs produced by the real store.'
TECHNIQUE = 'differential oracle (list concatenation) over generated merge inputs'


def plan(tier, seed):
    per = 8 if tier == 'quick' else 250
    extra = [{'seed': seed, 'n': 0, 'many_parts': 261}] if tier == 'thorough' else []
    return [{'seed': seed * 1000 + i, 'n': per, 'hashseed': i % 4} for i in range(16)] + extra


def required(tier):
    return {
        'classes': ['refused:differing-field-sets', 'refused:mixed-identification',
                    'naming:pattern', 'naming:list', 'assoc:yes', 'assoc:no', 'ids:yes',
                    'assoc-fields:vx_species:species-differ-per-part',
                    'ids:no', 'inputs:1', 'inputs:6', 'layout:inputs-in-separate-directories',
                    'metadata:non-ascii-text', 'naming:pattern:index-in-directory',
                    'naming:pattern:zero-padded',
                    'layout:associated-parts-cut-at-other-boundaries',
                    'layout:inputs-are-symbolic-links-to-equally-named-files',
                    'open:relative-path-then-chdir', 'layout:merged-store-moved-after-merge',
                    'name-clash:through-the-pattern-route'],
        'counters': {'seam_reads': 50, 'beyond_end_reads': 10, 'id_lookups': 50},
        'evaluations': 300,
    }


def one_merge(rng, workdir: Path, rec, k):
    import numpy as np

    import vlib.fieldsets as vf
    from AEIC.trajectories import TrajectoryStore
    from vlib import trajgen
    from vlib.storeops import Mismatch

    nprng = np.random.default_rng(rng.getrandbits(32))
    nin = rng.choice([1, 2, 2, 3, 3, 4, 5, 6])
    with_ids = rng.random() < 0.5
    with_assoc = rng.random() < 0.4
    # species-indexed data in the associated files; every part may carry its own species
    assoc_fs = 'vx_species' if with_assoc and rng.random() < 0.5 else 'vx_simple'
    per_part_species = assoc_fs == 'vx_species' and rng.random() < 0.6
    plan_all = vf.species_plan(rng, rng.choice(['gapped', 'prefix', 'single']))
    pattern = rng.random() < 0.4
    tag = f'{rng.getrandbits(36):x}'
    d = workdir / f'case{tag}'
    d.mkdir()
    dir_pattern = pattern and rng.random() < 0.35      # {index} also in a directory component
    padded = pattern and rng.random() < 0.4            # {index:03d}
    fmt = '{index:03d}' if padded else '{index}'
    if pattern:
        start = rng.randint(0, 12)
        names = ['part_' + fmt.format(index=start + j) for j in range(nin)]
    else:
        pool = ['zeta', 'alpha', 'mid', 'beta', 'omega', 'b10', 'b9', 'a_2', 'A']
        names = rng.sample(pool, nin)      # deliberately not in alphabetical order
    uid = k * 10000
    id_pool = rng.sample(range(-500, 5000), 80)
    model, ids, seams, bases, assocs = [], {}, [], [], []
    all_trajs = []
    max_nb = 1
    spread = (not pattern) and rng.random() < 0.4     # every input in a directory of its own
    # inputs handed over as symbolic links with distinct names; the files they point to all
    # have the SAME name, each in a directory of its own (e.g. run_3/out.nc)
    linked = (not pattern) and (not with_assoc) and rng.random() < 0.25
    for j_, name in enumerate(names):
        dd = d / f'dir{j_}' if spread else d
        if dir_pattern:
            dd = d / ('slice_' + fmt.format(index=start + j_))
        if linked:
            dd = d / f'run_{j_}'
        dd.mkdir(exist_ok=True)
        base = dd / (f'{name}.nc' if not linked else 'out.nc')
        assoc = dd / f'x_{name}.nc'
        kw = {}
        if with_assoc:
            kw['associated_files'] = [(assoc, [assoc_fs])]
        plan_part = vf.species_plan(rng, rng.choice(['gapped', 'prefix', 'single', 'per-field'])) \
            if per_part_species else plan_all
        st = TrajectoryStore.create(base_file=base, **kw)
        for _ in range(rng.randint(1, 9)):
            uid += 1
            fid = id_pool.pop() if with_ids else None
            t = trajgen.make_base_traj(nprng, rng.randint(1, 7), uid, flight_id=fid)
            if with_assoc:
                t.add_fields(vf.ALL[assoc_fs])
                vf.fill(t, assoc_fs, rng, plan=plan_part, unset_prob=0.0)
            st.add(t)
            all_trajs.append(t)
            max_nb = max(max_nb, t.nbytes)
            if with_ids:
                ids[fid] = len(model)
            model.append(trajgen.snapshot(t))
        st.close()
        seams.append(len(model))
        bases.append(base)
        assocs.append(assoc)
    if linked:
        (d / 'links').mkdir()
        link_paths = []
        for name, target in zip(names, bases):
            lp = d / 'links' / f'{name}.nc'
            os.symlink(target.resolve(), lp)
            link_paths.append(lp)
        bases = link_paths
        rec.cls('layout:inputs-are-symbolic-links-to-equally-named-files')
    repartitioned = False
    if with_assoc and not pattern and not per_part_species and nin >= 2 and len(model) > nin \
            and rng.random() < 0.45:
        # the associated data of the SAME trajectories written by a second job that chunks
        # the work differently: same number of files, other boundaries
        cuts = sorted(rng.sample(range(1, len(model)), nin - 1))
        if cuts + [len(model)] != seams:
            repartitioned = True
            assocs = []
            for g, (a_, b_) in enumerate(zip([0] + cuts, cuts + [len(model)])):
                wb = d / f'work_base_{g}.nc'
                ax = d / f'y_{g:02d}.nc'
                with TrajectoryStore.create(base_file=wb,
                                            associated_files=[(ax, [assoc_fs])]) as st2:
                    for t in all_trajs[a_:b_]:
                        st2.add(t)
                assocs.append(ax)
            rec.cls('layout:associated-parts-cut-at-other-boundaries')
    out = d / 'merged.aeic-store'
    case = {'assoc_fields': assoc_fs if with_assoc else None,
            'species_differ_per_part': per_part_species, 'inputs': names, 'sizes': [b - a for a, b in zip([0] + seams, seams)],
            'pattern': pattern, 'ids': with_ids, 'assoc': with_assoc,
            'inputs_in_separate_directories': spread,
            'associated_parts_cut_at_other_boundaries': repartitioned}
    if spread:
        rec.cls('layout:inputs-in-separate-directories')
    # free-text metadata of the merged store (any Unicode text is legal)
    meta_kw = {}
    if rng.random() < 0.5:
        meta_kw = {rng.choice(['title', 'comment', 'history', 'source']):
                   rng.choice(['Überflüge 2019 – Zürich → 東京', 'vols d\'été ✈', 'naïve café'])}
        rec.cls('metadata:non-ascii-text')
    pdir = (d / ('slice_' + fmt)) if dir_pattern else d
    if dir_pattern:
        rec.cls('naming:pattern:index-in-directory')
    if padded:
        rec.cls('naming:pattern:zero-padded')
    try:
        if pattern:
            TrajectoryStore.merge(out, input_stores_pattern=str(pdir / ('part_' + fmt + '.nc')),
                                  input_stores_index_range=(start, start + nin - 1), **meta_kw)
        else:
            TrajectoryStore.merge(out, input_stores=list(bases), **meta_kw)
        kw = {}
        if with_assoc:
            aout = d / 'merged_x.aeic-store'
            if pattern:
                TrajectoryStore.merge(aout,
                                      input_stores_pattern=str(pdir / ('x_part_' + fmt + '.nc')),
                                      input_stores_index_range=(start, start + nin - 1))
            else:
                TrajectoryStore.merge(aout, input_stores=list(assocs))
            kw['associated_files'] = [aout]
    except Exception as e:  # noqa: BLE001
        raise Mismatch('valid merge raised', {'error': f'{type(e).__name__}: {e}', **case})
    # the merged directory is renamed / moved after merge() and opened at its new place
    if rng.random() < 0.25:
        (d / 'archive').mkdir(exist_ok=True)
        new_out = d / 'archive' / f'renamed_{rng.getrandbits(20):x}.aeic-store'
        os.rename(out, new_out)
        out = new_out
        if with_assoc and rng.random() < 0.5:
            new_a = d / 'archive' / 'renamed_x.aeic-store'
            os.rename(kw['associated_files'][0], new_a)
            kw['associated_files'] = [new_a]
        rec.cls('layout:merged-store-moved-after-merge')
    small = rng.random() < 0.4
    # the merged store opened through a path relative to the working directory, which the
    # program changes afterwards (before any look-up)
    rel_open = rng.random() < 0.2
    cwd0 = os.getcwd()
    try:
        if rel_open:
            os.chdir(out.parent)
            rec.cls('open:relative-path-then-chdir')
        st = TrajectoryStore.open(base_file=Path(out.name) if rel_open else out,
                                   cache_size_mb=1.5 * max_nb / (1024 * 1024) if small else 64, **kw)
        if rel_open:
            os.chdir(workdir)
    except Exception as e:  # noqa: BLE001
        os.chdir(cwd0)
        raise Mismatch('the merged store cannot be opened',
                       {'error': f'{type(e).__name__}: {str(e)[:200]}', 'metadata': meta_kw,
                        **case})
    try:
        rec.ev()
        if len(st) != len(model):
            raise Mismatch('merged length differs from the sum of input lengths',
                           {'len': len(st), 'expected': len(model), **case})
        seam_idx = {i for s in seams for i in (s - 1, s)}
        order = list(range(len(model)))
        rng.shuffle(order)
        for i in order:
            rec.ev()
            try:
                got = st[i]
            except Exception as e:  # noqa: BLE001
                raise Mismatch('valid merged index raised',
                               {'index': i, 'error': f'{type(e).__name__}: {e}', **case})
            if trajgen.fingerprint(got) != trajgen.fingerprint(model[i]):
                raise Mismatch('merged store[i] is not the i-th trajectory of the concatenation',
                               {'index': i, 'got': trajgen.fingerprint(got),
                                'expected': trajgen.fingerprint(model[i]), 'seams': seams,
                                **case})
            df = trajgen.compare(model[i], got)
            if df:
                raise Mismatch('merged store[i] has altered contents',
                               {'index': i, 'diffs': df[:5], **case})
            if i in seam_idx:
                rec.count('seam_reads')
        for extra in (0, rng.randint(1, 4)):
            rec.ev()
            try:
                got = st[len(model) + extra]
                raise Mismatch('index beyond the end of a merged store returned a trajectory',
                               {'index': len(model) + extra, 'got': trajgen.fingerprint(got),
                                **case})
            except IndexError:
                rec.count('beyond_end_reads')
        if with_ids:
            for fid, pos in ids.items():
                rec.ev()
                try:
                    got = st.get_flight(fid)
                except Exception as e:  # noqa: BLE001
                    raise Mismatch('id lookup on a merged store of identified inputs raised',
                                   {'flight_id': fid, 'error': f'{type(e).__name__}: {e}', **case})
                if got is None or trajgen.fingerprint(got) != trajgen.fingerprint(model[pos]):
                    raise Mismatch('merged id lookup wrong',
                                   {'flight_id': fid, 'position': pos, 'seams': seams,
                                    'got': None if got is None else trajgen.fingerprint(got),
                                    **case})
                rec.count('id_lookups')
            rec.ev()
            if st.get_flight(99999) is not None:
                raise Mismatch('unknown id found in merged store', case)
        else:
            rec.ev()
            try:
                st.get_flight(1)
                raise Mismatch('id lookup on unidentified merged store did not raise', case)
            except RuntimeError:
                pass
        # iteration
        rec.ev()
        fg = [trajgen.fingerprint(t) for t in st]
        if fg != [trajgen.fingerprint(s) for s in model]:
            raise Mismatch('iteration over merged store differs from concatenation',
                           {'got': fg, **case})
    finally:
        st.close()
    if with_assoc:
        rec.cls(f'assoc-fields:{assoc_fs}' + (':species-differ-per-part' if per_part_species
                                              else ''))
    rec.cls(f'inputs:{nin}', 'naming:' + ('pattern' if pattern else 'list'),
            'ids:' + ('yes' if with_ids else 'no'), 'assoc:' + ('yes' if with_assoc else 'no'),
            'cache:' + ('small' if small else 'large'),
            f'combo:{"P" if pattern else "L"}{"I" if with_ids else "-"}'
            f'{"A" if with_assoc else "-"}{"s" if small else "-"}:{min(nin, 3)}+')
    os.chdir(cwd0)
    shutil.rmtree(d, ignore_errors=True)
    return case


def refusals(rng, workdir: Path, rec, k):
    import numpy as np

    import vlib.fieldsets as vf
    from AEIC.trajectories import TrajectoryStore
    from vlib import trajgen
    from vlib.storeops import Mismatch

    nprng = np.random.default_rng(rng.getrandbits(32))
    for kind in ('differing-field-sets', 'mixed-identification'):
        d = workdir / f'ref{rng.getrandbits(36):x}'
        d.mkdir()
        nin = rng.randint(2, 4)
        odd = rng.randrange(nin)
        paths = []
        uid = k * 10000 + 5000
        for j in range(nin):
            p = d / f's{j}.nc'
            st = TrajectoryStore.create(base_file=p)
            for _ in range(rng.randint(1, 3)):
                uid += 1
                fid = uid if not (kind == 'mixed-identification' and j == odd) else None
                t = trajgen.make_base_traj(nprng, 3, uid, flight_id=fid)
                if kind == 'differing-field-sets' and j == odd:
                    t.add_fields(vf.VX_OTHER)
                    vf.fill(t, 'vx_other', rng)
                st.add(t)
            st.close()
            paths.append(p)
        rec.ev()
        try:
            TrajectoryStore.merge(d / 'out.aeic-store', input_stores=paths)
            raise Mismatch(f'merge of inputs with {kind} was accepted',
                           {'kind': kind, 'odd_one': odd, 'inputs': nin})
        except ValueError:
            rec.cls(f'refused:{kind}')
        shutil.rmtree(d, ignore_errors=True)


def name_clashes(rng, workdir: Path, rec, k):
    """Inputs whose file names clash inside the merged directory (same base name in different
    directories; an input called like the merged index).  Either outcome is acceptable -
    a correct merged store, or a refusal that leaves every input in place and no output -
    but never a merged store that lost or duplicated trajectories."""
    import numpy as np

    from AEIC.trajectories import TrajectoryStore
    from vlib import trajgen
    from vlib.storeops import Mismatch

    nprng = np.random.default_rng(rng.getrandbits(32))
    for kind in ('same-name-in-different-directories', 'input-named-like-the-merged-index'):
        d = workdir / f'clash{rng.getrandbits(36):x}'
        d.mkdir()
        with_ids = rng.random() < 0.5
        nin = rng.randint(2, 4)
        clash = sorted(rng.sample(range(nin), 2)) if kind.startswith('same') else [rng.randrange(nin)]
        if kind.startswith('same') and rng.random() < 0.5:
            clash = list(range(nin))          # run{index}/shard.nc: every input has that name
        paths, model = [], []
        uid = k * 10000 + 7000
        for j in range(nin):
            sub = d / f'in{j}'
            sub.mkdir()
            if j in clash:
                nm = 'shard.nc' if kind.startswith('same') else '_index.nc'
            else:
                nm = f'other{j}.nc'
            p = sub / nm
            with TrajectoryStore.create(base_file=p) as st:
                for _ in range(rng.randint(1, 4)):
                    uid += 1
                    t = trajgen.make_base_traj(nprng, 3, uid, flight_id=uid if with_ids else None)
                    st.add(t)
                    model.append((p, trajgen.snapshot(t)))
            paths.append(p)
        out = d / 'out.aeic-store'
        case = {'kind': kind, 'inputs': [str(p.relative_to(d)) for p in paths], 'ids': with_ids}
        rec.ev()
        # the same inputs named through the numbered-pattern route when their names allow it
        via_pattern = kind.startswith('same') and len(clash) == nin
        try:
            if via_pattern:
                rec.cls('name-clash:through-the-pattern-route')
                TrajectoryStore.merge(out, input_stores_pattern=str(d / 'in{index}' / 'shard.nc'),
                                      input_stores_index_range=(0, nin - 1))
            else:
                TrajectoryStore.merge(out, input_stores=paths)
            refused = None
        except Exception as e:  # noqa: BLE001
            refused = e
        if refused is None:
            try:
                with TrajectoryStore.open(base_file=out) as m:
                    got = [trajgen.fingerprint(m[i]) for i in range(len(m))]
                    looked = [m.get_flight(sn['flight_id']) is not None for _, sn in model] \
                        if with_ids else []
            except Exception as e:  # noqa: BLE001
                raise Mismatch('merge of inputs with clashing file names produced an unreadable '
                               'store', {'error': f'{type(e).__name__}: {str(e)[:200]}', **case})
            exp = [trajgen.fingerprint(sn) for _, sn in model]
            if got != exp or not all(looked):
                raise Mismatch('merge of inputs with clashing file names lost or duplicated '
                               'trajectories', {'got': got, 'expected': exp, **case})
            rec.cls(f'name-clash:{kind}:merged-correctly')
        else:
            if not isinstance(refused, ValueError):
                raise Mismatch('merge of inputs with clashing file names failed with an '
                               'unrelated error', {'error': f'{type(refused).__name__}: '
                                                            f'{str(refused)[:200]}', **case})
            problems = []
            if out.exists():
                problems.append('output directory left behind')
            for p in paths:
                if not p.exists():
                    problems.append(f'input {p.relative_to(d)} is gone')
            if not problems:
                for p in paths:
                    with TrajectoryStore.open(base_file=p) as st:
                        exp = [trajgen.fingerprint(sn) for q, sn in model if q == p]
                        if [trajgen.fingerprint(st[i]) for i in range(len(st))] != exp:
                            problems.append(f'input {p.relative_to(d)} changed')
            if problems:
                raise Mismatch('a merge refused for clashing file names did not leave '
                               'everything as it was', {'problems': problems, **case})
            rec.cls(f'name-clash:{kind}:refused-nothing-touched')
        shutil.rmtree(d, ignore_errors=True)


def many_parts(rng, workdir: Path, rec, nparts):
    """A merged base store plus a separately merged associated store with several hundred
    constituent files (thorough tier)."""
    import numpy as np

    import vlib.fieldsets as vf
    from AEIC.trajectories import TrajectoryStore
    from vlib import trajgen
    from vlib.storeops import Mismatch

    nprng = np.random.default_rng(rng.getrandbits(32))
    d = workdir / 'many'
    d.mkdir()
    model, bases, assocs = [], [], []
    for j in range(nparts):
        b, a = d / f'p_{j}.nc', d / f'x_{j}.nc'
        st = TrajectoryStore.create(base_file=b, associated_files=[(a, ['vx_simple'])])
        t = trajgen.make_base_traj(nprng, 2, j + 1, flight_id=5000 - j)
        t.add_fields(vf.VX_SIMPLE)
        vf.fill(t, 'vx_simple', rng)
        st.add(t)
        st.close()
        model.append(trajgen.snapshot(t))
        bases.append(b)
        assocs.append(a)
    case = {'parts': nparts}
    try:
        TrajectoryStore.merge(d / 'm.aeic-store', input_stores_pattern=str(d / 'p_{index}.nc'),
                              input_stores_index_range=(0, nparts - 1))
        TrajectoryStore.merge(d / 'mx.aeic-store', input_stores=list(assocs))
        st = TrajectoryStore.open(base_file=d / 'm.aeic-store',
                                  associated_files=[d / 'mx.aeic-store'])
    except Exception as e:  # noqa: BLE001
        raise Mismatch('a consistent merged base + merged associated store with many parts is '
                       'refused / fails', {'error': f'{type(e).__name__}: {str(e)[:200]}', **case})
    try:
        rec.ev()
        if len(st) != nparts:
            raise Mismatch('merged length differs from the sum of input lengths',
                           {'len': len(st), **case})
        for i in [0, 1, 255, 256, 257, nparts - 1] + rng.sample(range(nparts), 10):
            rec.ev()
            df = trajgen.compare(model[i], st[i])
            if df:
                raise Mismatch('merged store[i] has altered contents', {'index': i,
                                                                        'diffs': df[:4], **case})
            got = st.get_flight(5000 - i)
            if got is None or trajgen.fingerprint(got) != trajgen.fingerprint(model[i]):
                raise Mismatch('merged id lookup wrong', {'index': i, **case})
    finally:
        st.close()
    rec.cls('inputs:many(>256)')
    shutil.rmtree(d, ignore_errors=True)


def run_shard(spec, rec):
    from vlib import failpoints
    from vlib.storeops import Mismatch

    workdir = Path(tempfile.mkdtemp(prefix='c09-'))
    try:
        if spec.get('many_parts'):
            try:
                many_parts(random.Random(spec['seed']), workdir, rec, spec['many_parts'])
            except Mismatch as m:
                rec.violation(m.mechanism, m.detail, {'spec': dict(spec), 'k': 'many'})
            return
        cwd_start = os.getcwd()
        ks = [spec['only']] if 'only' in spec else range(spec['n'])
        for k in ks:
            for part, fn in (('merge', one_merge), ('refusals', refusals),
                             ('name-clashes', name_clashes)):
                rng = random.Random(f"{spec['seed']}-{k}-{part}")
                try:
                    clock = 'whole-second' if k % 5 == 3 else None
                    with failpoints.store_clock(clock):
                        c = fn(rng, workdir, rec, k)
                    if clock:
                        rec.cls('clock:whole-second-creation-stamp')
                    if k == 0 and c:
                        rec.sample(c)
                except Mismatch as m:
                    m.detail['part'] = part
                    rec.violation(m.mechanism, m.detail,
                                  {'spec': {'seed': spec['seed'], 'n': spec['n']}, 'k': k})
                finally:
                    os.chdir(cwd_start)
    finally:
        shutil.rmtree(workdir, ignore_errors=True)
