"""C12 — emission-index and atmosphere functions follow their cited methods.

S3: the public EI / ISA functions against independent scalar
re-implementations (vlib/refs) plus metamorphic relations that do not depend
on the reading of any formula.
"""

from __future__ import annotations

import math
import random

ID = 'C12'
LEVEL = 'exploration'
RULE = ('random inputs over the whole documented range (altitude 0-25 km dense around 11 km, '
        'Mach 0-0.95, fuel flow 0..1.5x take-off incl. 0 and negatives, positive '
        'certification sets with monotone / non-monotone / equal calibration flows, random '
        'fuels): ISA T/p/inverse, FFM2 eq.40, BFFM2 NOx + humidity correction + speciation, '
        'BFFM2 HC/CO with SAGE clamps and ACRP low-thrust factor, SOx stoichiometry, FOA3, '
        'fuel-flow PMvol, SCOPE11 compared with independent scalar implementations (rel '
        '1e-9); metamorphic: finite, >= 0, linear scaling in certification EIs, sulfur atom '
        'conservation, ISA inverse/continuity/monotonicity/25 km refusal, exactly one '
        'monotone thrust category, MEEM finite/non-negative/linear; array calls (any shape, mixed layers, integer altitudes, per-point atmosphere) equal element-wise scalar references, inputs are left unmodified, results do not depend on position in the array; class = function x '
        'branch reached (branch taken by the reference)')
ASSUMPTIONS = [
    'calibration fuel flows are equal, equal up to a few ulps, or >= 2 % apart (nearly equal flows '
    'give unbounded log-log slopes that no published method defines)',
    'the BFFM2 NOx fit is the single log-log least-squares line the source documents',
    'MEEM has no independent reference: only finite / non-negative / linear-scaling checks',
    'HC/CO certification data have an idle->approach log-log slope within +-12 (real engines '
    '-1..-4): steeper data overflow at very small fuel flows in any floating-point implementation',
]
SHARD_TIMEOUT = {'quick': 600, 'thorough': 3600}
LEVEL_TEXT = ('Exploration: differential runtime check of every EI / atmosphere building '
              'block against independent scalar implementations of the cited equations, '
              'with branch-coverage classes and reference-free metamorphic relations.')
LEVEL_NOTE = 'My reading of the cited equations is part of the trusted base; tolerance rel 1e-9.'
TECHNIQUE = 'differential oracle (independent scalar re-implementations) + metamorphic relations'

MODES = ('idle', 'approach', 'climb', 'takeoff')
HCCO_BRANCHES = ['intercept-clamped-to-climb', 'intercept-clamped-to-approach',
                 'non-negative-slope-flat', 'regular-bilinear']


def plan(tier, seed):
    per = 1500 if tier == 'quick' else 60000
    return [{'seed': seed * 1000 + i, 'n': per} for i in range(16)]


def required(tier):
    cl = ['isa:troposphere', 'isa:stratosphere', 'isa:tropopause-continuity',
          'isa:refused-above-25km', 'isa:inverse', 'ffm2', 'nox:cat:idle', 'nox:cat:approach',
          'nox:cat:climb', 'nox:nonpositive-flow', 'nox:scaling', 'sox', 'sox:sulfur-conserved',
          'foa3:interior', 'foa3:clamped', 'foa3:scaling', 'pmvol-ff:idle', 'pmvol-ff:other',
          'scope11:MTF', 'scope11:TF', 'scope11:invalid-sn', 'scope11:sn-capped',
          'scope11:unknown-type', 'meem:given-matrices', 'meem:from-smoke-number',
          'meem:no-smoke-number', 'meem:scaling', 'thrustcat:monotone',
          'hcco:scaling', 'hcco:low-thrust', 'hcco:non-positive-flow',
          'hcco:equal-calibration-flows', 'isa:array:mixed-layers', 'isa:array:integer-altitudes',
          'nox:per-point-atmosphere', 'nox:permutation', 'hcco:per-point-atmosphere',
          'hcco:permutation', 'ffm2:array', 'hcco:calibration-flows-equal-up-to-rounding',
          'thrust-mode-values:non-standard-insertion-order', 'hcco:idle-and-approach-EI-equal',
          'nox:nonpositive-flow:very-small-engine', 'atmospheric-state:buffer-reused-first',
          'atmospheric-state:read-first', 'scope11:by-pass-ratio-missing-for-unmixed-engine']
    cl += [f'hcco:{b}' for b in HCCO_BRANCHES]
    return {'classes': cl, 'evaluations': 20000}


def rel_close(a, b, tol=1e-9):
    if not (math.isfinite(a) and math.isfinite(b)):
        return False
    return abs(a - b) <= tol * max(abs(a), abs(b)) + 1e-300


def run_shard(spec, rec):
    import numpy as np

    from AEIC.emissions.ei.hcco import EI_HCCO
    from AEIC.emissions.ei.nox import BFFM2_EINOx
    from AEIC.emissions.ei.pmnvol import PMnvol_MEEM, calculate_PMnvolEI_scope11
    from AEIC.emissions.ei.pmvol import EI_PMvol_FOA3, EI_PMvol_FuelFlow
    from AEIC.emissions.ei.sox import EI_SOx
    from AEIC.emissions.utils import get_SLS_equivalent_fuel_flow, get_thrust_cat_cruise
    from AEIC.performance.edb import EDBEntry
    from AEIC.performance.types import ThrustMode, ThrustModeArray, ThrustModeValues
    from AEIC.types import Fuel
    from AEIC.utils import standard_atmosphere as sa
    from vlib.refs import ei as R
    from vlib.refs import isa
    from vlib.storeops import Mismatch

    TM = {'idle': ThrustMode.IDLE, 'approach': ThrustMode.APPROACH, 'climb': ThrustMode.CLIMB,
          'takeoff': ThrustMode.TAKEOFF}

    ord_rng = random.Random(0)

    def tmv(d):
        # a mapping may have been filled in any key order (take-off first, ...)
        modes = list(MODES)
        if ord_rng.random() < 0.5:
            ord_rng.shuffle(modes)
            if modes != list(MODES):
                rec.cls('thrust-mode-values:non-standard-insertion-order')
        return ThrustModeValues({TM[m]: float(d[m]) for m in modes})

    def gen_flows(rng):
        """calibration flows: monotone, non-monotone or with equal neighbours"""
        kind = rng.choice(['monotone', 'monotone', 'non-monotone', 'equal'])
        # 0.03 .. 5 kg/s; one set in six is a very small engine (down to 0.5 g/s at idle)
        lo_exp = -3.3 if rng.random() < 0.17 else -1.5
        base = sorted(10 ** rng.uniform(lo_exp, lo_exp + 2.2) for _ in range(4))
        for i in range(1, 4):                       # >= 2 % apart
            if base[i] < base[i - 1] * 1.02:
                base[i] = base[i - 1] * (1.02 + rng.random())
        if kind == 'non-monotone':
            i, j = rng.sample(range(4), 2)
            base[i], base[j] = base[j], base[i]
        elif kind == 'equal':
            i = rng.randrange(3)
            base[i + 1] = base[i]
            if rng.random() < 0.5:
                # equal up to rounding (0.3 vs 3*0.1, a unit round trip): a few ulps apart
                for _ in range(rng.randint(1, 4)):
                    base[i + 1] = math.nextafter(base[i + 1], rng.choice([0.0, math.inf]))
                if rng.random() < 0.5:
                    base[i], base[i + 1] = base[i + 1], base[i]
        return dict(zip(MODES, base)), kind

    def gen_eis(rng):
        return {m: 10 ** rng.uniform(-2, 2) for m in MODES}

    def gen_alt(rng):
        r = rng.random()
        if r < 0.3:
            return 11000.0 + rng.uniform(-50, 50)
        if r < 0.35:
            return rng.choice([0.0, 11000.0, 25000.0, 10999.999999, 11000.000001])
        return rng.uniform(0, 25000)

    def check(cond, mech, detail):
        rec.ev()
        if not cond:
            raise Mismatch(mech, detail)

    ks = [spec['only']] if 'only' in spec else range(spec['n'])
    for k in ks:
        rng = random.Random(f"{spec['seed']}-{k}")
        ord_rng.seed(f"{spec['seed']}-{k}-order")
        case = {'spec': {'seed': spec['seed'], 'n': spec['n']}, 'k': k}
        try:
            # ---------------- ISA ---------------------------------------------------
            h = gen_alt(rng)
            T = float(sa.temperature_at_altitude_isa_bada4(h))
            P = float(sa.pressure_at_altitude_isa_bada4(h))
            check(rel_close(T, isa.temperature(h)), 'ISA temperature differs from the standard',
                  {'h': h, 'got': T, 'expected': isa.temperature(h)})
            check(rel_close(P, isa.pressure(h)), 'ISA pressure differs from the standard',
                  {'h': h, 'got': P, 'expected': isa.pressure(h)})
            rec.cls('isa:troposphere' if h <= 11000 else 'isa:stratosphere')
            hb = float(sa.altitude_from_pressure_isa_bada4(P))
            check(abs(hb - h) <= 1e-6 + 1e-9 * h, 'altitude_from_pressure(pressure(h)) != h',
                  {'h': h, 'back': hb})
            p_q = rng.uniform(isa.pressure(25000.0), 101325.0)
            h_q = float(sa.altitude_from_pressure_isa_bada4(p_q))
            check(rel_close(float(sa.pressure_at_altitude_isa_bada4(h_q)), p_q, 1e-9)
                  and abs(h_q - isa.altitude(p_q)) <= 1e-6 + 1e-9 * abs(h_q),
                  'pressure(altitude_from_pressure(p)) != p', {'p': p_q, 'h': h_q})
            rec.cls('isa:inverse')
            if k % 10 == 0:
                d = 10 ** rng.uniform(-6, -1)
                Tm, Tp = (float(sa.temperature_at_altitude_isa_bada4(11000 - d)),
                          float(sa.temperature_at_altitude_isa_bada4(11000 + d)))
                Pm, Pp = (float(sa.pressure_at_altitude_isa_bada4(11000 - d)),
                          float(sa.pressure_at_altitude_isa_bada4(11000 + d)))
                check(abs(Tm - Tp) <= 0.0066 * d * 1.01 and 0 < Pm - Pp <= 8.0 * d,
                      'ISA not continuous / not decreasing across the tropopause',
                      {'d': d, 'T': [Tm, Tp], 'p': [Pm, Pp]})
                h1, h2 = sorted((gen_alt(rng), gen_alt(rng)))
                if h2 - h1 > 1e-3:
                    check(float(sa.pressure_at_altitude_isa_bada4(h1))
                          > float(sa.pressure_at_altitude_isa_bada4(h2)),
                          'ISA pressure not strictly decreasing', {'h1': h1, 'h2': h2})
                rec.cls('isa:tropopause-continuity')
                for fn in (sa.temperature_at_altitude_isa_bada4,
                           sa.pressure_at_altitude_isa_bada4):
                    hh = 25000.0 + 10 ** rng.uniform(-3, 4)
                    try:
                        v = fn(hh)
                        check(False, 'altitude above 25 km was not refused',
                              {'h': hh, 'returned': float(v), 'function': fn.__name__})
                    except ValueError:
                        rec.ev()
                rec.cls('isa:refused-above-25km')

            # ---------------- ISA on arrays (mixed layers, any shape), inputs untouched -----
            if k % 5 == 0:
                shp = rng.choice([(7,), (1,), (2, 3), (0,), (4, 1)])
                nel = int(np.prod(shp))
                hv = np.array([gen_alt(rng) for _ in range(nel)], dtype=float).reshape(shp)
                if nel >= 2 and rng.random() < 0.5:
                    hv.flat[0], hv.flat[-1] = 2000.0, 18000.0      # both layers in one call
                if rng.random() < 0.3:
                    hv = np.asfortranarray(hv)
                if rng.random() < 0.25 and nel:
                    hv = np.floor(hv).astype(rng.choice([np.int64, np.int32, np.float32]))
                h0 = hv.copy()
                for fn, ref, nm in ((sa.temperature_at_altitude_isa_bada4, isa.temperature, 'T'),
                                    (sa.pressure_at_altitude_isa_bada4, isa.pressure, 'p')):
                    gv = np.asarray(fn(hv))
                    check(gv.shape == hv.shape, 'ISA function changed the shape of its input',
                          {'function': fn.__name__, 'in': list(hv.shape), 'out': list(gv.shape)})
                    tol = 1e-9 if hv.dtype != np.float32 else 1e-5
                    bad = [(float(a), float(g), ref(float(a)))
                           for a, g in zip(hv.flat, gv.flat) if not rel_close(float(g), ref(float(a)), tol)]
                    check(not bad, f'ISA {nm} on an array differs from the standard element-wise',
                          {'function': fn.__name__, 'dtype': str(hv.dtype), 'bad': bad[:4]})
                    check(np.array_equal(hv, h0) and hv.dtype == h0.dtype,
                          'an ISA function modified its input array', {'function': fn.__name__})
                if nel:
                    pv = np.asarray(sa.pressure_at_altitude_isa_bada4(hv.astype(float)))
                    p0 = pv.copy()
                    hb_v = np.asarray(sa.altitude_from_pressure_isa_bada4(pv))
                    check(hb_v.shape == pv.shape and np.allclose(hb_v, hv.astype(float),
                                                                 rtol=1e-9, atol=1e-6),
                          'altitude_from_pressure(pressure(h)) != h on an array',
                          {'h': hv.astype(float).ravel().tolist()[:6],
                           'back': hb_v.ravel().tolist()[:6]})
                    check(np.array_equal(pv, p0), 'an ISA function modified its input array',
                          {'function': 'altitude_from_pressure_isa_bada4'})
                rec.cls('isa:array:mixed-layers' if nel >= 2 and hv.min() <= 11000 < hv.max()
                        else 'isa:array:other')
                if hv.dtype.kind == 'i':
                    rec.cls('isa:array:integer-altitudes')

            # ---------------- AtmosphericState: a value computed at construction ----------
            if k % 4 == 1:
                from AEIC.emissions.types import AtmosphericState
                nn = rng.randint(1, 6)
                alt_buf = np.array([gen_alt(rng) for _ in range(nn)])
                tas_buf = np.array([rng.uniform(60, 280) for _ in range(nn)])
                alt0, tas0 = alt_buf.copy(), tas_buf.copy()
                state = AtmosphericState(alt_buf, tas_buf)
                mode_ = rng.choice(['read-first', 'buffer-reused-first', 'buffer-reused-first'])
                if mode_ == 'read-first':
                    _ = (state.pressure, state.temperature, state.mach)
                # the caller re-uses its work buffers for the next flight
                alt_buf[:] = np.array([gen_alt(rng) for _ in range(nn)])
                tas_buf[:] = tas_buf[::-1] * 0.5
                for i in range(nn):
                    eT, eP = isa.temperature(float(alt0[i])), isa.pressure(float(alt0[i]))
                    eM = float(tas0[i]) / math.sqrt(1.4 * 287.05287 * eT)
                    gT, gP, gM = (float(state.temperature[i]), float(state.pressure[i]),
                                  float(state.mach[i]))
                    check(rel_close(gT, eT) and rel_close(gP, eP) and rel_close(gM, eM, 1e-6),
                          'AtmosphericState does not hold the ISA temperature / pressure / Mach '
                          'number of the altitudes it was built from',
                          {'altitude': float(alt0[i]), 'tas': float(tas0[i]),
                           'got': [gT, gP, gM], 'expected': [eT, eP, eM], 'order': mode_,
                           'buffer_now': float(alt_buf[i])})
                rec.cls(f'atmospheric-state:{mode_}')

            # ---------------- FFM2 eq. 40 ----------------------------------------------
            ff_cal, flow_kind = gen_flows(rng)
            to_flow = max(ff_cal.values())
            mach = rng.uniform(0, 0.95)
            r = rng.random()
            ff = 0.0 if r < 0.05 else (-rng.uniform(0, 1) if r < 0.08
                                       else rng.uniform(0, 1.5 * to_flow * 2))
            n_eng = rng.choice([1, 2, 3, 4])
            got = float(get_SLS_equivalent_fuel_flow(np.array([ff]), np.array([P]),
                                                     np.array([T]), np.array([mach]),
                                                     n_eng=n_eng)[0])
            exp = R.ffm2_sls_fuel_flow(ff, P, T, mach, n_eng=n_eng)
            check(rel_close(got, exp) or (got == exp == 0.0),
                  'SLS-equivalent fuel flow differs from FFM2 eq. 40',
                  {'ff': ff, 'P': P, 'T': T, 'mach': mach, 'n_eng': n_eng, 'got': got,
                   'expected': exp})
            rec.cls('ffm2')
            if k % 3 == 0:                       # several points in one call, inputs untouched
                nn = rng.randint(2, 6)
                hs = [gen_alt(rng) for _ in range(nn)]
                fv = np.array([rng.choice([0.0, rng.uniform(0, 3 * to_flow)]) for _ in hs])
                Tv = np.array([isa.temperature(x) for x in hs])
                Pv = np.array([isa.pressure(x) for x in hs])
                Mv = np.array([rng.choice([0.0, rng.uniform(0, 0.95)]) for _ in hs])
                keep = [x.copy() for x in (fv, Pv, Tv, Mv)]
                gv = np.asarray(get_SLS_equivalent_fuel_flow(fv, Pv, Tv, Mv, n_eng=n_eng))
                ev = [R.ffm2_sls_fuel_flow(float(a), float(b), float(c), float(d), n_eng=n_eng)
                      for a, b, c, d in zip(fv, Pv, Tv, Mv)]
                check(gv.shape == fv.shape and all(rel_close(float(a), b) or float(a) == b == 0.0
                                                   for a, b in zip(gv, ev)),
                      'SLS-equivalent fuel flow differs from FFM2 eq. 40',
                      {'ff': fv.tolist(), 'P': Pv.tolist(), 'T': Tv.tolist(),
                       'mach': Mv.tolist(), 'n_eng': n_eng, 'got': gv.tolist(), 'expected': ev})
                check(all(np.array_equal(a, b) for a, b in zip((fv, Pv, Tv, Mv), keep)),
                      'get_SLS_equivalent_fuel_flow modified one of its inputs', {})
                rec.cls('ffm2:array')

            # ---------------- BFFM2 NOx ----------------------------------------------------
            ei = gen_eis(rng)
            pts = [rng.uniform(0, 1.5 * to_flow) for _ in range(3)] + [ff_cal['idle'],
                                                                       ff_cal['approach']]
            if rng.random() < 0.3:
                pts.append(rng.choice([0.0, -0.3]))
            arr = np.array(pts)
            if rng.random() < 0.5:           # every point in its own atmosphere
                hs = [gen_alt(rng) for _ in pts]
                Tn = np.array([isa.temperature(x) for x in hs])
                Pn = np.array([isa.pressure(x) for x in hs])
                rec.cls('nox:per-point-atmosphere')
            else:
                Tn, Pn = np.full(len(pts), T), np.full(len(pts), P)
            keep = (arr.copy(), Tn.copy(), Pn.copy())
            cal_in, ei_in = tmv(ff_cal), tmv(ei)
            res = BFFM2_EINOx(arr, ei_in, cal_in, Tn, Pn)
            check(np.array_equal(arr, keep[0]) and np.array_equal(Tn, keep[1])
                  and np.array_equal(Pn, keep[2])
                  and all(float(cal_in[TM[m]]) == float(ff_cal[m])
                          and float(ei_in[TM[m]]) == float(ei[m]) for m in MODES),
                  'BFFM2_EINOx modified one of its inputs', {'pts': pts})
            res_k = BFFM2_EINOx(arr, tmv({m: 3.0 * v for m, v in ei.items()}), tmv(ff_cal),
                                Tn, Pn)
            perm = list(range(len(pts)))
            rng.shuffle(perm)
            res_p = BFFM2_EINOx(arr[perm], tmv(ei), tmv(ff_cal), Tn[perm], Pn[perm])
            check(np.array_equal(np.asarray(res_p.NOxEI), np.asarray(res.NOxEI)[perm])
                  or np.allclose(np.asarray(res_p.NOxEI), np.asarray(res.NOxEI)[perm],
                                 rtol=1e-12, atol=0),
                  'BFFM2 NOx of a point depends on its position in the input array',
                  {'pts': pts, 'perm': perm})
            rec.cls('nox:permutation')
            for i, f in enumerate(pts):
                T_i, P_i = float(Tn[i]), float(Pn[i])
                e_nox, e_no, e_no2, e_hono, cat = R.bffm2_nox(f, ei, ff_cal, T_i, P_i)
                g = (float(res.NOxEI[i]), float(res.NOEI[i]), float(res.NO2EI[i]),
                     float(res.HONOEI[i]))
                det = {'ff': f, 'ff_cal': ff_cal, 'ei_cal': ei, 'T': T_i, 'P': P_i, 'got': g,
                       'expected': (e_nox, e_no, e_no2, e_hono), 'category': cat,
                       'flows': flow_kind}
                check(all(rel_close(a, b) for a, b in zip(g, (e_nox, e_no, e_no2, e_hono))),
                      'BFFM2 NOx differs from the cited method', det)
                check(all(math.isfinite(x) and x >= 0 for x in g), 'NOx EI not finite/>=0', det)
                check(rel_close(g[1] + g[2] + g[3], g[0], 1e-12),
                      'NO + NO2 + HONO != NOx', det)
                check(rel_close(float(res_k.NOxEI[i]), 3.0 * g[0], 1e-9),
                      'NOx EI does not scale linearly with the certification EIs', det)
                rec.cls(f'nox:cat:{cat}')
                if f <= 0:
                    rec.cls('nox:nonpositive-flow')
                    if 0.5 * (ff_cal['idle'] + ff_cal['approach']) < 0.01:
                        rec.cls('nox:nonpositive-flow:very-small-engine')
            rec.cls('nox:scaling')

            # ---------------- thrust categories ------------------------------------------
            grid = np.sort(np.array([rng.uniform(-0.1, 1.6 * to_flow) for _ in range(12)]
                                    + [ff_cal['idle'], ff_cal['approach'],
                                       (ff_cal['idle'] + ff_cal['approach']) / 2,
                                       (ff_cal['approach'] + ff_cal['climb']) / 2]))
            cats = list(get_thrust_cat_cruise(grid, tmv(ff_cal)).data)
            order = {'idle': 0, 'approach': 1, 'climb': 2, 'takeoff': 3}
            names = [str(c).lower() for c in cats]
            check(len(names) == len(grid) and all(n in order for n in names),
                  'a point did not get exactly one thrust category', {'cats': names})
            check([R.thrust_category(float(f), ff_cal) for f in grid] == names,
                  'thrust category differs from the mid-point rule',
                  {'grid': grid.tolist(), 'cats': names, 'ff_cal': ff_cal})
            check(all(order[a] <= order[b] for a, b in zip(names, names[1:])),
                  'thrust category not monotone in fuel flow',
                  {'grid': grid.tolist(), 'cats': names, 'ff_cal': ff_cal})
            rec.cls('thrustcat:monotone')

            # ---------------- HC / CO ---------------------------------------------------------
            eih = gen_eis(rng)
            shape = rng.random()
            if shape < 0.07:      # idle and approach certification EIs exactly equal
                eih['approach'] = eih['idle']
                rec.cls('hcco:idle-and-approach-EI-equal')
            elif shape < 0.25:      # rising idle->approach (non-negative slope)
                eih['approach'] = eih['idle'] * rng.uniform(1.0, 5.0)
            elif shape < 0.6:     # steeply falling: intercept beyond climb flow
                eih['approach'] = eih['idle'] * 10 ** rng.uniform(-2.5, -0.05)
            den_ = abs(math.log10(ff_cal['approach'] / ff_cal['idle']))
            num_ = math.log10(eih['approach'] / eih['idle'])
            if den_ > 0 and abs(num_) > 12 * den_:     # see ASSUMPTIONS: slope within +-12
                eih['approach'] = eih['idle'] * 10 ** math.copysign(12 * den_, num_)
            ffs = [rng.uniform(0, 1.5 * to_flow) for _ in range(4)]
            ffs += [ff_cal['idle'] * rng.uniform(0.05, 0.999), ff_cal['idle'], ff_cal['climb']]
            if rng.random() < 0.3:
                ffs += [0.0, -0.2]
            arr = np.array(ffs)
            if rng.random() < 0.5:
                hs = [gen_alt(rng) for _ in ffs]
                Th = np.array([isa.temperature(x) for x in hs])
                Ph = np.array([isa.pressure(x) for x in hs])
                rec.cls('hcco:per-point-atmosphere')
            else:
                Th, Ph = np.full(len(ffs), T), np.full(len(ffs), P)
            keep = (arr.copy(), Th.copy(), Ph.copy())
            cal_in, ei_in = tmv(ff_cal), tmv(eih)
            out = EI_HCCO(arr, ei_in, cal_in, Th, Ph)
            check(np.array_equal(arr, keep[0]) and np.array_equal(Th, keep[1])
                  and np.array_equal(Ph, keep[2])
                  and all(float(cal_in[TM[m]]) == float(ff_cal[m])
                          and float(ei_in[TM[m]]) == float(eih[m]) for m in MODES),
                  'EI_HCCO modified one of its inputs', {'ffs': ffs})
            out_k = EI_HCCO(arr, tmv({m: 2.5 * v for m, v in eih.items()}), tmv(ff_cal),
                            Th, Ph)
            perm = list(range(len(ffs)))
            rng.shuffle(perm)
            out_p = np.asarray(EI_HCCO(arr[perm], tmv(eih), tmv(ff_cal), Th[perm], Ph[perm]))
            check(np.allclose(out_p, np.asarray(out)[perm], rtol=1e-12, atol=0),
                  'HC/CO EI of a point depends on its position in the input array',
                  {'ffs': ffs, 'perm': perm})
            rec.cls('hcco:permutation')
            for i, f in enumerate(ffs):
                T_i, P_i = float(Th[i]), float(Ph[i])
                e, br = R.hcco(f, eih, ff_cal, T_i, P_i)
                g = float(out[i])
                det = {'ff': f, 'ff_cal': ff_cal, 'ei_cal': eih, 'T': T_i, 'P': P_i, 'got': g,
                       'expected': e, 'branch': br, 'flows': flow_kind}
                okv = rel_close(g, e) or (g == 0.0 and abs(e) < 1e-300)
                if not okv:
                    # the cited method is discontinuous where two calibration flows coincide
                    # (which rule applies flips): with flows a few ulps apart either side of
                    # the discontinuity is a faithful answer
                    for mode_ in ('approach', 'climb', 'idle'):
                        for up in (0.0, math.inf):
                            alt_cal = dict(ff_cal)
                            for _ in range(8):
                                alt_cal[mode_] = math.nextafter(alt_cal[mode_], up)
                            near = any(m2 != mode_ and abs(ff_cal[m2] / ff_cal[mode_] - 1) < 1e-12
                                       for m2 in MODES)
                            if near and rel_close(g, R.hcco(f, eih, alt_cal, T_i, P_i)[0], 1e-7):
                                okv = True
                                rec.cls('hcco:on-a-discontinuity-of-the-method')
                check(okv,
                      'HC/CO EI differs from the BFFM2 bilinear fit with its documented rules',
                      det)
                check(math.isfinite(g) and g >= 0, 'HC/CO EI not finite/>=0', det)
                check(rel_close(float(out_k[i]), 2.5 * g, 1e-9) or g == 0.0,
                      'HC/CO EI does not scale linearly with the certification EIs', det)
                rec.cls('hcco:' + br.split(':')[0])
                if 'low-thrust' in br:
                    rec.cls('hcco:low-thrust')
                if 'non-positive' in br:
                    rec.cls('hcco:non-positive-flow')
            rec.cls('hcco:scaling')
            if flow_kind == 'equal' and ff_cal['idle'] == ff_cal['approach']:
                rec.cls('hcco:equal-calibration-flows')
            elif flow_kind == 'equal' and abs(ff_cal['idle'] / ff_cal['approach'] - 1) < 1e-12:
                rec.cls('hcco:calibration-flows-equal-up-to-rounding')

            # ---------------- SOx ------------------------------------------------------------
            S = rng.choice([0.0, 600.0, rng.uniform(0, 3000)])
            y = rng.choice([0.0, 0.02, 1.0, rng.random()])
            fuel = Fuel(name='h', energy_MJ_per_kg=43.0, EI_H2O=1230.0, EI_CO2=3160.0,
                        non_volatile_carbon_fraction=0.95, lifecycle_CO2=89.0,
                        fuel_sulfur_content_nom=S, sulfate_yield_nom=y)
            sx = EI_SOx(fuel)
            es = R.sox(S, y)
            det = {'S_ppm': S, 'yield': y, 'got': (sx.EI_SOx, sx.EI_SO2, sx.EI_SO4),
                   'expected': es}
            check(all(rel_close(a, b) or a == b == 0 for a, b in
                      zip((sx.EI_SOx, sx.EI_SO2, sx.EI_SO4), es)),
                  'SOx EIs differ from fuel-sulfur stoichiometry', det)
            check(rel_close(sx.EI_SO2 / 64.0 + sx.EI_SO4 / 96.0, S / 1e6 * 1e3 / 32.0, 1e-12)
                  or S == 0, 'sulfur atoms not conserved', det)
            check(rel_close(sx.EI_SO2 + sx.EI_SO4, sx.EI_SOx, 1e-12) or S == 0,
                  'SO2 + SO4 != SOx', det)
            check(min(sx.EI_SOx, sx.EI_SO2, sx.EI_SO4) >= 0, 'negative SOx EI', det)
            rec.cls('sox', 'sox:sulfur-conserved')

            # ---------------- FOA3 / fuel-flow PMvol ---------------------------------------------
            th = np.array([rng.uniform(0, 110), rng.choice([7.0, 30.0, 85.0, 100.0]),
                           rng.uniform(7, 100), rng.uniform(-5, 7), rng.uniform(100, 130)])
            hc = np.array([10 ** rng.uniform(-3, 2) for _ in th])
            keep = (th.copy(), hc.copy())
            pm, oc = EI_PMvol_FOA3(th, hc)
            check(np.array_equal(th, keep[0]) and np.array_equal(hc, keep[1]),
                  'EI_PMvol_FOA3 modified one of its inputs', {'thrust': keep[0].tolist()})
            pm3, _ = EI_PMvol_FOA3(th, 3.0 * hc)
            for i in range(len(th)):
                e = R.foa3(float(th[i]), float(hc[i]))
                det = {'thrust': float(th[i]), 'hc': float(hc[i]), 'got': float(pm[i]),
                       'expected': e}
                check(rel_close(float(pm[i]), e) and rel_close(float(oc[i]), e),
                      'FOA3 volatile PM differs from the piece-wise linear delta(thrust)', det)
                check(rel_close(float(pm3[i]), 3 * float(pm[i]), 1e-12),
                      'FOA3 does not scale with HC EI', det)
                rec.cls('foa3:interior' if 7 < th[i] < 100 else 'foa3:clamped')
            rec.cls('foa3:scaling')
            modes = [rng.choice(MODES) for _ in range(5)]
            tma = ThrustModeArray(np.array([TM[m].value for m in modes]))
            ffv = np.array([rng.uniform(0.1, 3) for _ in modes])
            pmv, ocv = EI_PMvol_FuelFlow(ffv, tma)
            for i, m in enumerate(modes):
                e_pm, e_oc = R.pmvol_fuel_flow(m)
                check(rel_close(float(pmv[i]), e_pm) and rel_close(float(ocv[i]), e_oc),
                      'fuel-flow PMvol differs from the lube-oil formula',
                      {'mode': m, 'got': (float(pmv[i]), float(ocv[i])),
                       'expected': (e_pm, e_oc)})
                rec.cls('pmvol-ff:idle' if m == 'idle' else 'pmvol-ff:other')

            # ---------------- SCOPE11 ---------------------------------------------------------------
            et = rng.choice(['MTF', 'TF', 'TF', 'MTF', 'XX'])
            bpr = rng.uniform(0.2, 12)
            if et != 'MTF' and rng.random() < 0.15:
                # the data base has no by-pass ratio for this engine (blank cell -> NaN); the
                # unmixed-flow equations do not contain it
                bpr = rng.choice([math.nan, math.inf])
                rec.cls('scope11:by-pass-ratio-missing-for-unmixed-engine')
            sn = {m: rng.choice([-1.0, 0.0, rng.uniform(0.01, 39), rng.uniform(40, 70),
                                 rng.uniform(0.1, 10), rng.uniform(0.1, 10)]) for m in MODES}
            prof = calculate_PMnvolEI_scope11(tmv(sn), et, bpr)
            for m in MODES:
                e = R.scope11(sn[m], et, bpr, m)
                g = float(prof[TM[m]])
                det = {'sn': sn, 'engine_type': et, 'bpr': bpr, 'mode': m, 'got': g,
                       'expected': e}
                check(rel_close(g, e) or g == e == 0.0,
                      'SCOPE11 nvPM mass EI differs from C_BC x k_slm x Q', det)
                check(math.isfinite(g) and g >= 0, 'SCOPE11 EI not finite/>=0', det)
                if sn[m] in (-1.0, 0.0):
                    rec.cls('scope11:invalid-sn')
                elif sn[m] > 40:
                    rec.cls('scope11:sn-capped')
            rec.cls(f'scope11:{et}' if et in ('MTF', 'TF') else 'scope11:unknown-type')

            # ---------------- MEEM (metamorphic only) ---------------------------------------------------
            if k % 4 == 0:
                n = rng.randint(2, 40)
                alts = np.clip(np.cumsum(np.array([rng.uniform(-400, 600) for _ in range(n)]))
                               + rng.uniform(0, 9000), 0, 13000)
                if rng.random() < 0.7:
                    alts[rng.randrange(n)] = rng.uniform(6000, 13000)   # a real cruise level
                if rng.random() < 0.3:
                    alts[n // 2:] = alts[n // 2]            # level segment
                Ts = np.array([isa.temperature(float(a)) for a in alts])
                Ps = np.array([isa.pressure(float(a)) for a in alts])
                Ms = np.array([rng.uniform(0.2, 0.9) for _ in alts])
                mk = rng.choice(['given', 'from-sn', 'no-sn'])
                mass = {m: rng.uniform(0.5, 300) for m in MODES}
                num = {m: 10 ** rng.uniform(13, 16) for m in MODES}
                snv = {m: rng.uniform(0.5, 30) for m in MODES}
                if mk != 'given':
                    mass = {m: -1.0 for m in MODES}
                    num = {m: -1.0 for m in MODES}
                if mk == 'no-sn':
                    snv = {m: -1.0 for m in MODES}
                mt = rng.choice([-1.0, 0.575, 0.925]) if mk == 'given' else -1.0

                def edb(scale_mass=1.0, scale_num=1.0):
                    return EDBEntry(
                        engine='h', uid=f'u{k}', engine_type=rng.choice(['MTF', 'TF']),
                        BP_Ratio=5.0, rated_thrust=120.0, fuel_flow=tmv(ff_cal),
                        CO_EI_matrix=tmv(ei), HC_EI_matrix=tmv(ei), EI_NOx_matrix=tmv(ei),
                        SN_matrix=tmv(snv),
                        nvPM_mass_matrix=tmv({m: v * (scale_mass if v > 0 else 1)
                                              for m, v in mass.items()}),
                        nvPM_num_matrix=tmv({m: v * (scale_num if v > 0 else 1)
                                             for m, v in num.items()}),
                        PR=tmv({m: 28.0 for m in MODES}),
                        EImass_max=200.0 * scale_mass, EImass_max_thrust=mt,
                        EInum_max=3e15 * scale_num, EInum_max_thrust=mt)
                st = rng.getstate()
                e1 = edb()
                gmd, em, en = PMnvol_MEEM(e1, alts, Ts, Ps, Ms)
                det = {'kind': mk, 'alts': alts.tolist()[:8], 'max_thrust': mt}
                finite = np.isfinite(gmd) & np.isfinite(em) & np.isfinite(en)
                if not finite.all():
                    # defect model of the listed finding: on a climbing point the combustor
                    # pressure coefficient 0.85 + 0.3 (h-3000)/max(1, hmax-3000) is so
                    # negative that P3 <= 0 (profiles topping out below / just above 3 km)
                    rate = np.diff(alts, prepend=alts[0])
                    coef = 0.85 + 0.30 * (alts - 3000.0) / max(1.0, float(alts.max()) - 3000.0)
                    predicted = (rate > 0) & (1.0 + coef * (28.0 - 1.0) <= 0.0)
                    rec.ev()
                    if np.array_equal(~finite, predicted):
                        rec.finding(
                            'C12-meem-nan-low-top-altitude',
                            'MEEM returns NaN on climbing points of a profile whose top '
                            'altitude is below or barely above 3000 m (negative combustor '
                            'pressure P3)', {**det, 'nan_at': np.flatnonzero(~finite).tolist()},
                            case)
                        rec.cls('meem:low-top-altitude')
                        continue
                    raise Mismatch('MEEM returned a non-finite value',
                                   {**det, 'mass': em.tolist()[:6], 'num': en.tolist()[:6],
                                    'predicted_by_known_model': predicted.tolist()[:8]})
                rec.ev()
                check(np.all(gmd >= 0) and np.all(em >= 0) and np.all(en >= 0),
                      'MEEM returned a negative index', det)
                if mk == 'given':
                    rng.setstate(st)
                    _, em2, en2 = PMnvol_MEEM(edb(scale_mass=2.0, scale_num=5.0), alts, Ts, Ps,
                                              Ms)
                    check(np.allclose(em2, 2.0 * em, rtol=1e-9, atol=0)
                          and np.allclose(en2, 5.0 * en, rtol=1e-9, atol=0),
                          'MEEM does not scale linearly with the nvPM certification matrices',
                          det)
                    rec.cls('meem:scaling', 'meem:given-matrices')
                elif mk == 'from-sn':
                    rec.cls('meem:from-smoke-number')
                else:
                    check(np.all(em == 0) and np.all(en == 0),
                          'MEEM without any smoke number must give zero', det)
                    rec.cls('meem:no-smoke-number')
            if k < 2:
                rec.sample({'h': h, 'T': T, 'P': P, 'ff_cal': ff_cal, 'ei': ei,
                            'flow_kind': flow_kind})
        except Mismatch as m:
            rec.violation(m.mechanism, m.detail, case)
