"""C15 — ground tracks and mission distances are true WGS-84 great circles.

S3: the real GroundTrack / Mission.gc_distance against an independent Vincenty
implementation (vlib/geodesy.py); where Vincenty's inverse does not converge
(near-antipodal pairs) closure checks with the direct solution are used.
"""

from __future__ import annotations

import math
import random
import shutil
import tempfile
from pathlib import Path

ID = 'C15'
LEVEL = 'exploration'
RULE = ('generated tracks: random global pairs plus antimeridian, near-polar, '
        'near-antipodal, same-longitude, same-latitude, 1 m..100 km short pairs and 3-6 '
        'waypoint tracks; for each: total length vs sum of Vincenty leg lengths; location(d) '
        'at 0, total, waypoint distances and random d vs Vincenty direct from the leg start '
        '(position within 2 mm + 2e-9 d, azimuth within 1e-5 deg when > 1 km from the leg '
        'end); step(a,b)==location(a+b); overstep continues the last leg\'s geodesic; all '
        'azimuths in [0,360); out-of-range / negative requests raise GroundTrack.Exception '
        'with overstep off; Mission.gc_distance == track length between the two airports '
        'and symmetric; class = (geometry kind, probe kind)')
ASSUMPTIONS = [
    'Vincenty 1975 (independent implementation) is the reference; for pairs where its '
    'inverse needs > 12 iterations, fails, or that are > 19 500 km apart, the oracle is closure: the direct solution '
    'from the start with the reported total distance must land on the end point',
    "on multi-waypoint tracks with overstep off, step() refusing with 'step would cross a "
    "waypoint' is the documented behaviour and is counted, not flagged",
]
SHARD_TIMEOUT = {'quick': 600, 'thorough': 3600}
LEVEL_TEXT = ('Exploration: differential runtime check of the real ground-track code against '
              'an independent ellipsoidal geodesic solver over generated hostile geometry.')
LEVEL_NOTE = 'Vincenty accuracy (~0.1 mm) and float arithmetic bound the tolerance (2 mm + 2e-9 rel).'
TECHNIQUE = 'differential oracle (independent Vincenty geodesics) on return values'

KINDS = ['random', 'antimeridian', 'polar', 'near-antipodal', 'same-longitude',
         'same-latitude', 'short', 'equator', 'whole-degrees', 'on-the-180th-meridian',
         'exactly-antipodal', 'longitude-0-360']


def plan(tier, seed):
    per = 1200 if tier == 'quick' else 40000
    return [{'seed': seed * 1000 + i, 'n': per} for i in range(16)]


def required(tier):
    cl = [f'geom:{k}' for k in KINDS] + [
        'probe:location-interior', 'probe:location-at-waypoint', 'probe:step==location',
        'probe:overstep', 'probe:overstep-from-beyond-end', 'probe:refused-out-of-range', 'probe:refused-negative',
        'probe:multi-waypoint', 'mission:gc_distance', 'mission:symmetric', 'mission:built:direct',
        'mission:built:from_toml', 'mission:built:from_query_result',
        'oracle:vincenty', 'oracle:closure-only', 'history:confusable-track-built-before',
        'history:confusable-track:minus-one-vs-minus-two', 'duplicate:copy', 'duplicate:deepcopy',
        'duplicate:pickle', 'probe:round-trip-track', 'probe:chained-steps-across-the-end',
        'probe:sub-millimetre-leg-across-the-antimeridian']
    return {'classes': cl, 'evaluations': 3000}


def gen_pair(rng, kind):
    if kind == 'random':
        return (rng.uniform(-89, 89), rng.uniform(-180, 180),
                rng.uniform(-89, 89), rng.uniform(-180, 180))
    if kind == 'antimeridian':
        return (rng.uniform(-70, 70), rng.uniform(150, 180),
                rng.uniform(-70, 70), rng.uniform(-180, -150))[::1] if rng.random() < 0.5 \
            else (rng.uniform(-70, 70), rng.uniform(-180, -150),
                  rng.uniform(-70, 70), rng.uniform(150, 180))
    if kind == 'polar':
        s = rng.choice([1, -1])
        return (s * rng.uniform(80, 89.999), rng.uniform(-180, 180),
                s * rng.uniform(60, 89.999), rng.uniform(-180, 180))
    if kind == 'near-antipodal':
        la, lo = rng.uniform(-80, 80), rng.uniform(-180, 180)
        eps = 10 ** rng.uniform(-3, 0.5)
        return (la, lo, -la + rng.uniform(-eps, eps),
                ((lo + 180 + rng.uniform(-eps, eps)) + 180) % 360 - 180)
    if kind == 'same-longitude':
        lo = rng.uniform(-180, 180)
        return (rng.uniform(-89, 89), lo, rng.uniform(-89, 89), lo)
    if kind == 'same-latitude':
        la = rng.uniform(-85, 85)
        return (la, rng.uniform(-180, 180), la, rng.uniform(-180, 180))
    if kind == 'equator':
        return (0.0, rng.uniform(-180, 180), 0.0, rng.uniform(-180, 180))
    if kind == 'on-the-180th-meridian':
        # a way-point exactly on the date line, written as +180 or as -180
        lo = rng.choice([180.0, -180.0])
        a = (rng.uniform(-70, 70), lo)
        b = (rng.uniform(-70, 70), rng.choice([rng.uniform(150, 179.9), rng.uniform(-179.9, -150),
                                                -lo]))
        if b[1] == -lo and abs(a[0] - b[0]) < 1e-3:
            b = (b[0] + 1.0, b[1])
        return (a[0], a[1], b[0], b[1]) if rng.random() < 0.5 else (b[0], b[1], a[0], a[1])
    if kind == 'exactly-antipodal':
        # the geodesic is not unique: whichever one the track picks, every point of the track
        # must lie on THAT one (closure oracle)
        la, lo = float(rng.randint(-80, 80)) or 10.0, float(rng.randint(-179, 179))
        if rng.random() < 0.5:
            la, lo = rng.uniform(-80, 80), rng.uniform(-179, 179)
        lo2 = lo + 180.0 if lo <= 0 else lo - 180.0
        return (la, lo, -la, lo2)
    if kind == 'longitude-0-360':
        # longitudes written in the 0..360 convention
        a = gen_pair(rng, rng.choice(['random', 'antimeridian', 'short']))
        return (a[0], a[1] % 360.0, a[2], a[3] % 360.0)
    if kind == 'whole-degrees':
        # way-points typed in by hand: small whole numbers of degrees (also 0, -1, -2)
        while True:
            r = (float(rng.randint(-3, 60)), float(rng.randint(-4, 12)),
                 float(rng.randint(-3, 60)), float(rng.randint(-4, 12)))
            if (r[0], r[1]) != (r[2], r[3]):
                return r
    if kind == 'short':
        la, lo = rng.uniform(-85, 85), rng.uniform(-179, 179)
        dist = 10 ** rng.uniform(0, 5)
        from vlib import geodesy
        la2, lo2, _ = geodesy.direct(la, lo, rng.uniform(0, 360), dist)
        return (la, lo, la2, lo2)
    raise AssertionError(kind)


def _np32(x):
    import numpy as np
    return np.float32(x)


def run_shard(spec, rec):
    from AEIC.trajectories.ground_track import GroundTrack
    from AEIC.types import Location
    from vlib import geodesy as G
    from vlib.storeops import Mismatch

    GE = GroundTrack.Exception

    def tol(d):
        return 2e-3 + 2e-9 * abs(d)

    def leg_ref(p, q):
        """independent (distance, initial azimuth) of a leg, or None -> closure only"""
        r = G.inverse(p[0], p[1], q[0], q[1])
        # Vincenty's azimuth loses accuracy towards the antipodal region (slow convergence
        # is the symptom): there the oracle falls back to closure checks
        if r is None or r[3] > 12 or r[0] > 1.95e7:
            return None
        return r[0], r[1]

    def check_point(pt, exp_lat, exp_lon, what, case):
        if not (0.0 <= pt.azimuth <= 360.0):
            raise Mismatch('azimuth outside [0, 360]', {'azimuth': pt.azimuth, 'at': what,
                                                        **case})
        if not (math.isfinite(pt.location.latitude) and math.isfinite(pt.location.longitude)):
            raise Mismatch('non-finite position returned', {'at': what, **case})
        err = G.chord_m(pt.location.latitude, pt.location.longitude, exp_lat, exp_lon)
        return err

    def one_track(rng, k):
        kind = KINDS[k % len(KINDS)] if rng.random() < 0.8 else rng.choice(KINDS)
        nwp = 2 if rng.random() < 0.7 else rng.randint(3, 6)
        pts = []
        la1, lo1, la2, lo2 = gen_pair(rng, kind)
        pts = [(la1, lo1), (la2, lo2)]
        while len(pts) < nwp:
            a, b, c, d = gen_pair(rng, rng.choice(['random', 'antimeridian', 'polar']))
            pts.append((c, d))
        micro_leg = None
        if nwp >= 3 and rng.random() < 0.2:
            # two fixes a fraction of a millimetre apart, either side of the antimeridian
            i_ = rng.randrange(1, len(pts) - 1)
            la_ = rng.uniform(-60, 60)
            off = 10 ** rng.uniform(-9.5, -8.5)
            a_, b_ = (la_, 180.0 - off), (la_ + rng.uniform(-1, 1) * off, -180.0 + off)
            if rng.random() < 0.5:
                a_, b_ = b_, a_
            pts[i_:i_ + 1] = [a_, b_]
            micro_leg = i_
            rec.cls('probe:sub-millimetre-leg-across-the-antimeridian')
        if micro_leg is None and nwp >= 3 and rng.random() < 0.3:
            pts[-1] = pts[0]                 # a round trip: the track returns to its start
            if pts[-2] == pts[-1]:
                pts[-2] = (pts[-2][0] * 0.5 + 1.0, pts[-2][1])
            rec.cls('probe:round-trip-track')
        case = {'kind': kind, 'waypoints': [(round(a, 9), round(b, 9)) for a, b in pts]}
        wps = [Location(longitude=lo, latitude=la) for la, lo in pts]
        # another track built just before, whose way-points differ from this one's in ONE
        # coordinate by a value that is easily confused with it (-1 / -2 share a hash in
        # CPython, 0.0 == -0.0, a neighbouring float, the float32 rounding): this track must
        # not inherit anything from it
        if rng.random() < 0.35:
            i_ = rng.randrange(len(pts))
            la_, lo_ = pts[i_]
            which = rng.randrange(2)
            x = (la_, lo_)[which]
            conf = {-1.0: -2.0, -2.0: -1.0, 0.0: -0.0}.get(x)
            if conf is None or rng.random() < 0.3:
                conf = rng.choice([math.nextafter(x, math.inf), float(_np32(x)), x + 1.0])
            if conf != x or math.copysign(1, conf) != math.copysign(1, x):
                dpts = list(pts)
                dpts[i_] = (conf, lo_) if which == 0 else (la_, conf)
                if abs(dpts[i_][0]) <= 90 and all(dpts[j] != dpts[j + 1]
                                                  for j in range(len(dpts) - 1)):
                    decoy = GroundTrack([Location(longitude=lo, latitude=la) for la, lo in dpts],
                                        allow_overstep=rng.random() < 0.5)
                    decoy.total_distance
                    rec.cls('history:confusable-track-built-before')
                    if x in (-1.0, -2.0) and conf in (-1.0, -2.0):
                        rec.cls('history:confusable-track:minus-one-vs-minus-two')
        gt = GroundTrack(list(wps), allow_overstep=False)
        gto = GroundTrack(list(wps), allow_overstep=True)
        # duplicates of a track (copy, deepcopy, pickle round trip) answer like the original
        if rng.random() < 0.3:
            import copy
            import pickle
            how = rng.choice(['copy', 'deepcopy', 'pickle'])
            try:
                dup = {'copy': copy.copy, 'deepcopy': copy.deepcopy,
                       'pickle': lambda o: pickle.loads(pickle.dumps(o))}[how]
                gt, gto = dup(gt), dup(gto)
                rec.cls(f'duplicate:{how}')
            except Exception as e:  # noqa: BLE001  (not promised by the property)
                rec.cls(f'duplicate:{how}:unsupported:{type(e).__name__}')
        refs = [leg_ref(pts[i], pts[i + 1]) for i in range(len(pts) - 1)]
        closure_only = any(r is None for r in refs)
        rec.cls(f'geom:{kind}', 'oracle:closure-only' if closure_only else 'oracle:vincenty')
        if nwp > 2:
            rec.cls('probe:multi-waypoint')
        total = gt.total_distance
        rec.ev()
        if not math.isfinite(total) or total < 0:
            raise Mismatch('total distance not finite / negative', {'total': total, **case})
        # --- total length ---------------------------------------------------------
        if not closure_only:
            exp_total = math.fsum(r[0] for r in refs)
            if abs(total - exp_total) > tol(exp_total) * len(refs):
                raise Mismatch('total length differs from the WGS-84 geodesic length',
                               {'total': total, 'expected': exp_total, **case})
            cum = [0.0]
            for r in refs:
                cum.append(cum[-1] + r[0])
        else:
            # closure: walking each leg's reported length along the reported start azimuth
            # must arrive at the leg's end point
            cum = [gt.waypoint_distance(i) for i in range(len(pts))]
            for i in range(len(pts) - 1):
                d = cum[i + 1] - cum[i]
                az = gt[i].azimuth
                la, lo, _ = G.direct(pts[i][0], pts[i][1], az, d)
                err = G.chord_m(la, lo, pts[i + 1][0], pts[i + 1][1])
                rec.ev()
                if err > 0.05 + 1e-8 * d:       # azimuth ill-conditioned near antipodes
                    raise Mismatch('leg length/azimuth do not close on the end point',
                                   {'leg': i, 'error_m': err, 'length': d, 'azimuth': az,
                                    **case})
        for i in range(len(pts) - 1):
            rec.ev()
            if not (0 <= gt[i].azimuth <= 360):
                raise Mismatch('azimuth outside [0, 360]', {'leg': i, 'azimuth': gt[i].azimuth,
                                                            **case})

        def expected_at(d):
            """independent position at distance d (within the track)"""
            leg = 0
            while leg < len(refs) - 1 and d > cum[leg + 1]:
                leg += 1
            az = refs[leg][1] if refs[leg] is not None else gt[leg].azimuth
            la, lo, az2 = G.direct(pts[leg][0], pts[leg][1], az, d - cum[leg])
            return la, lo, az2, leg

        # --- location(d) --------------------------------------------------------------
        ds = [0.0, total] + [rng.uniform(0, total) for _ in range(4)]
        ds += [total * 1e-9, total * (1 - 1e-9), total / 2]
        for i in range(1, len(pts) - 1):
            ds.append(gt.waypoint_distance(i))
        if micro_leg is not None:
            a0, a1 = gt.waypoint_distance(micro_leg), gt.waypoint_distance(micro_leg + 1)
            ds += [a0 + f_ * (a1 - a0) for f_ in (0.25, 0.5, 0.75)]
        for d in ds:
            rec.ev()
            try:
                pt = gt.location(d)
            except Exception as e:  # noqa: BLE001
                raise Mismatch('location(d) raised for a distance within the track',
                               {'d': d, 'total': total, 'error': f'{type(e).__name__}: {e}',
                                **case})
            la, lo, az2, leg = expected_at(min(max(d, 0.0), cum[-1]))
            err = check_point(pt, la, lo, f'location({d})', case)
            lim = tol(d) if not closure_only else 0.05 + 1e-8 * total
            if err > lim:
                raise Mismatch('location(d) is not on the geodesic at distance d',
                               {'d': d, 'total': total, 'error_m': err, 'leg': leg,
                                'got': (pt.location.latitude, pt.location.longitude),
                                'expected': (la, lo), **case})
            # distance from the leg start really is d - cum[leg]
            if not closure_only and d - cum[leg] > 1.0:
                back = G.inverse(pts[leg][0], pts[leg][1], pt.location.latitude,
                                 pt.location.longitude)
                if back is not None and back[3] <= 40 and \
                        abs(back[0] - (d - cum[leg])) > tol(d):
                    raise Mismatch('location(d) is not exactly d from the start',
                                   {'d': d, 'measured': back[0] + cum[leg], **case})
            remaining = cum[leg + 1] - d
            if not closure_only and remaining > 1000 and d - cum[leg] > 1000 \
                    and abs(abs(la) - 90) > 0.01:
                dz = abs((pt.azimuth - az2 + 180) % 360 - 180)
                if dz > 1e-5 + 2e-3 / remaining * 57.3:
                    raise Mismatch('azimuth at location(d) is not the geodesic\'s azimuth',
                                   {'d': d, 'azimuth': pt.azimuth, 'expected': az2, **case})
            at_wp = any(abs(d - c) < 1e-9 for c in cum)
            rec.cls('probe:location-at-waypoint' if at_wp else 'probe:location-interior')
        # --- step(a, b) == location(a + b) ------------------------------------------------
        for _ in range(3):
            a = rng.uniform(0, total)
            b = rng.uniform(0, total - a)
            rec.ev()
            p1 = gto.step(a, b)
            p2 = gto.location(a + b) if (a + b) <= total else None
            if p2 is not None:
                if G.chord_m(p1.location.latitude, p1.location.longitude,
                             p2.location.latitude, p2.location.longitude) > 1e-6 or \
                        abs((p1.azimuth - p2.azimuth + 180) % 360 - 180) > 1e-9:
                    raise Mismatch('step(a, b) differs from location(a + b)',
                                   {'a': a, 'b': b, **case})
                rec.cls('probe:step==location')
            if nwp == 2:
                q = gt.step(a, b)          # overstep off, single leg: must work too
                if G.chord_m(q.location.latitude, q.location.longitude,
                             p1.location.latitude, p1.location.longitude) > 1e-6:
                    raise Mismatch('step differs between overstep on/off within the track',
                                   {'a': a, 'b': b, **case})
            else:
                try:
                    gt.step(a, b)
                except GE as e:
                    if 'cross a waypoint' in str(e):
                        rec.count('documented_waypoint_crossing_refusals')
                    else:
                        raise Mismatch('step within the track refused', {'a': a, 'b': b,
                                                                         'error': str(e), **case})
        # --- a walk in equal steps, each starting exactly where the last one ended, across the
        # end of the track (how a builder uses the track) ----------------------------------------
        if refs[-1] is not None and total > 0:
            last_len = cum[-1] - cum[-2]
            nst = rng.randint(3, 8)
            dstep = (last_len * rng.uniform(0.15, 0.6)) if rng.random() < 0.7 else \
                rng.uniform(1e3, 1e5)
            a = max(cum[-2], total - dstep * rng.uniform(0.2, nst - 1.5))
            for i_ in range(nst):
                if last_len + (a + dstep - total) > 1.9e7:
                    break
                rec.ev()
                try:
                    p = gto.step(a, dstep)
                except Exception as e:  # noqa: BLE001
                    raise Mismatch('allowed overstep raised',
                                   {'a': a, 'b': dstep, 'chained_step': i_,
                                    'error': f'{type(e).__name__}: {e}', **case})
                la, lo, _ = G.direct(pts[-2][0], pts[-2][1], refs[-1][1],
                                     a + dstep - cum[-2])
                if check_point(p, la, lo, 'chained step', case) > tol(a + dstep - cum[-2]):
                    raise Mismatch('a walk in chained steps leaves the great circle once it is '
                                   'past the end of the track',
                                   {'from': a, 'step': dstep, 'chained_step': i_, 'total': total,
                                    'error_m': check_point(p, la, lo, 'chained step', case),
                                    **case})
                a = a + dstep             # exactly the previous from + step
            rec.cls('probe:chained-steps-across-the-end')
        # --- overstep ------------------------------------------------------------------------
        if refs[-1] is not None and total > 0:
            last_len = cum[-1] - cum[-2]
            for extra in (rng.uniform(0.001, 1.0), rng.uniform(1, 5e4),
                          rng.uniform(5e4, 2e6)):
                if last_len + extra > 1.9e7:
                    continue
                a = rng.uniform(0, total)
                b = total - a + extra
                rec.ev()
                try:
                    p = gto.step(a, b)
                except Exception as e:  # noqa: BLE001
                    raise Mismatch('allowed overstep raised',
                                   {'a': a, 'b': b, 'error': f'{type(e).__name__}: {e}', **case})
                la, lo, _ = G.direct(pts[-2][0], pts[-2][1], refs[-1][1], last_len + extra)
                err = check_point(p, la, lo, 'overstep', case)
                if err > tol(last_len + extra):
                    raise Mismatch('overstep does not continue along the same great circle',
                                   {'extra': extra, 'error_m': err, **case})
                rec.cls('probe:overstep')
                # a step that STARTS beyond the end (second of consecutive oversteps)
                a2 = total + rng.uniform(0.0, extra)
                b2 = total + extra - a2
                p2 = gto.step(a2, b2)
                rec.ev()
                if check_point(p2, la, lo, 'overstep-from-beyond', case) > tol(last_len + extra):
                    raise Mismatch('a step starting beyond the end does not land at from+step on '
                                   'the same great circle', {'from': a2, 'step': b2,
                                                             'total': total, **case})
                rec.cls('probe:overstep-from-beyond-end')
                # the same request is refused when overstepping is not allowed
                try:
                    gt.step(a, b)
                    raise Mismatch('step beyond the end accepted with overstep off',
                                   {'a': a, 'b': b, **case})
                except GE:
                    rec.cls('probe:refused-out-of-range')
        # --- refusals --------------------------------------------------------------------------
        for d in (total + max(1e-3, total * 1e-9) + rng.uniform(0, 1e5), -rng.uniform(1e-6, 1e5)):
            rec.ev()
            try:
                gt.location(d)
                raise Mismatch('out-of-range location accepted with overstep off',
                               {'d': d, 'total': total, **case})
            except GE:
                rec.cls('probe:refused-out-of-range')
        for a, b in ((-1.0, 1.0), (1.0, -0.5), (-rng.uniform(0, 9), -rng.uniform(0, 9))):
            for g in (gt, gto):
                rec.ev()
                try:
                    g.step(a, b)
                    raise Mismatch('negative distances accepted by step', {'a': a, 'b': b,
                                                                         **case})
                except GE:
                    rec.cls('probe:refused-negative')
        return case

    # ------------------------------------------------------------------------------------
    ks = [spec['only']] if 'only' in spec else range(spec['n'])
    for k in ks:
        rng = random.Random(f"{spec['seed']}-{k}")
        try:
            c = one_track(rng, k)
            if k < 2:
                rec.sample(c)
        except Mismatch as m:
            rec.violation(m.mechanism, m.detail,
                          {'spec': {'seed': spec['seed'], 'n': spec['n']}, 'k': k})
    if 'only' not in spec or spec.get('only') == 'missions':
        missions(spec, rec)


def missions(spec, rec):
    """Mission.gc_distance == ground-track length, symmetric."""
    import pandas as pd

    from AEIC.missions import Mission
    from AEIC.missions.query import QueryResult
    from AEIC.trajectories.ground_track import GroundTrack
    from vlib import geodesy as G
    from vlib import world
    from vlib.storeops import Mismatch

    hdir = Path(tempfile.mkdtemp(prefix='c15-'))
    try:
        w = world.write_world(hdir)
        world.load_config(hdir)
        rng = random.Random(spec['seed'] + 7)
        codes = sorted(w)
        t0 = pd.Timestamp('2024-09-01T12:00:00Z')
        for _ in range(60):
            a, b = rng.sample(codes, 2)
            how = rng.choice(['direct', 'from_toml', 'from_query_result'])

            def build(o, d_):
                if how == 'direct':
                    return Mission(o, d_, t0, t0, 0.8, 'B738')
                if how == 'from_toml':
                    return Mission.from_toml({'flight': [dict(
                        origin=o, destination=d_, departure='2024-09-01T12:00:00',
                        arrival='2024-09-01T15:00:00', load_factor=0.8,
                        aircraft_type='B738')]})[0]
                # a schedule-database row: its distance column is the *stated* distance in
                # whole km (here off by up to 10 %), not the geodesic
                g = G.inverse(w[o]['lat'], w[o]['lon'], w[d_]['lat'], w[d_]['lon'])
                stated = int(round((g[0] if g else 5e6) / 1000.0 * rng.uniform(0.9, 1.1))) + 1
                return Mission.from_query_result(QueryResult(
                    departure=t0, arrival=t0, carrier='XX', flight_number='1', origin=o,
                    origin_country='US', destination=d_, destination_country='US',
                    service_type='J', aircraft_type='738', engine_type=None, distance=stated,
                    seat_capacity=150, id=rng.randint(1, 10**6), flight_id=7),
                    load_factor=rng.uniform(0.5, 1.0))
            m1 = build(a, b)
            m2 = build(b, a)
            rec.cls(f'mission:built:{how}')
            rec.ev(2)
            gt = GroundTrack.great_circle(m1.origin_position.location,
                                          m1.destination_position.location)
            ref = G.inverse(w[a]['lat'], w[a]['lon'], w[b]['lat'], w[b]['lon'])
            case = {'origin': a, 'destination': b, 'o': w[a], 'd': w[b], 'k': 'missions',
                    'built': how}
            try:
                if ref is not None and ref[3] <= 40:
                    exp = ref[0]
                else:
                    exp = gt.total_distance
                if not math.isfinite(m1.gc_distance) or \
                        abs(m1.gc_distance - exp) > 2e-3 + 2e-9 * exp or \
                        abs(m1.gc_distance - gt.total_distance) > 2e-3 + 2e-9 * exp:
                    raise Mismatch(
                        'Mission.gc_distance differs from the great-circle track length',
                        {'gc_distance': m1.gc_distance, 'track': gt.total_distance,
                         'vincenty': exp, **case})
                rec.cls('mission:gc_distance')
                if not abs(m1.gc_distance - m2.gc_distance) <= 2e-3 + 2e-9 * exp:
                    raise Mismatch('Mission.gc_distance is not symmetric',
                                   {'ab': m1.gc_distance, 'ba': m2.gc_distance, **case})
                rec.cls('mission:symmetric')
            except Mismatch as mm:
                swapped = G.inverse(w[a]['lon'], w[a]['lat'], w[b]['lon'], w[b]['lat']) \
                    if abs(w[a]['lon']) <= 90 and abs(w[b]['lon']) <= 90 else None
                if mm.mechanism.startswith('Mission.gc_distance differs') and (
                        (swapped is not None and abs(swapped[0] - m1.gc_distance) < 1.0)
                        or not math.isfinite(m1.gc_distance)):
                    rec.finding('C15-gc-distance-latlon-swapped',
                                'Mission.gc_distance passes (lat, lon) where the geodesic '
                                'solver expects (lon, lat)', mm.detail, case)
                else:
                    rec.violation(mm.mechanism, mm.detail, case)
    finally:
        from AEIC.config import Config
        Config.reset()
        shutil.rmtree(hdir, ignore_errors=True)
