"""C11 — every documented emissions option combination works or is refused by name.

The full Cartesian product of the documented option values (41 472
configurations) is executed on the real compute_emissions; each outcome is
classified {balanced inventory (C01's oracle), named refusal, internal error}.
"""

from __future__ import annotations

import random
import shutil
import tempfile
from pathlib import Path

ID = 'C11'
LEVEL = 'exploration'
EXHAUSTIVE = True
RULE = ('the FULL Cartesian product of the documented emissions options (2x2x2x2x3x3x3x3x4x2x2x2 '
        '= 41 472 configurations; exhaustive over that space) is loaded into the real Config '
        'and compute_emissions is run on generated performance-model data / trajectories '
        '(one data set per shard: quick 16, thorough 96); outcome classes: balanced inventory by the '
        'independent re-summation oracle of C01 + switched-off species absent or zero in '
        'trajectory and LTO parts | refusal (NotImplementedError/ValueError/RuntimeError whose '
        'message names the configured unsupported method) | internal error (anything else) = '
        'violation; class = outcome per option value')
ASSUMPTIONS = [
    'fuels: Jet-A, random, zero-sulfur, and the packaged SAF without life-cycle data (for the last '
    'one a refusal naming the missing life-cycle data is accepted when the life-cycle switch is on)',
    'one data set in eight is a model without engine-data-base entry: the methods that read it '
    '(MEEM, SCOPE11) may refuse with the look-up error, every other combination must work',
    'trajectory top altitude >= 6 km (MEEM low-profile NaN is finding C12-meem-nan-low-top-altitude)',
]
SHARD_TIMEOUT = {'quick': 900, 'thorough': 5400}
LEVEL_TEXT = ('Exhaustive over the finite option product (every one of the 41 472 '
              'combinations is executed), exploration over the data the product is run on.')
LEVEL_NOTE = 'The oracle for "balanced" is C01\'s independent re-summation.'
TECHNIQUE = 'exhaustive configuration enumeration with outcome classification + conservation oracle'


def plan(tier, seed):
    nsets = 1 if tier == 'quick' else 6
    return [{'seed': seed * 1000 + d, 'part': i, 'of': 16, 'dataset': d}
            for d in range(nsets) for i in range(16)]


def required(tier):
    from vlib.emis import OPTIONS
    cl = ['outcome:balanced', 'outcome:named-refusal', 'data:nvpm_data=no-engine-database-entry',
          'data:fuel=zero-sulfur', 'data:fuel=SAF(no lifecycle data)', 'data:fuel=jetA',
          'data:fuel=zero-life-cycle-CO2', 'stdout:ascii-only',
          'data:apu=none', 'data:apu=normal']
    for k, vals in OPTIONS.items():
        for v in vals:
            cl.append(f'{k}={v}:executed')
    return {'classes': cl, 'counters': {'configurations_executed': 41472}, 'evaluations': 41472}


def run_shard(spec, rec):
    import contextlib
    import io

    from AEIC.config import Config
    from AEIC.emissions import compute_emissions
    from vlib import emis

    hdir = Path(tempfile.mkdtemp(prefix='c11-'))
    try:
        # every shard runs its slice of the product on its own data set (16 per product pass)
        rng = random.Random(f"c11-{spec['seed']}-{spec['part']}")
        pm = emis.gen_pm(rng, hostile=(spec['dataset'] + spec['part']) % 2 == 1,
                         no_edb=(spec['dataset'] + spec['part']) % 8 == 5)
        if (spec['dataset'] + spec['part']) % 5 == 2:
            pm.apu = None
            pm.desc['apu'] = 'none'
        for kk in ('flows', 'nvpm_data', 'apu'):
            rec.cls(f'data:{kk}={pm.desc[kk]}')
        from AEIC.types import Fuel
        fk = (spec['part'] + spec['dataset']) % 5
        if fk == 0:
            fuel, fuel_kind = emis.gen_fuel(random.Random(1))          # jet-A
        elif fk == 1:
            fuel, fuel_kind = emis.gen_fuel(rng)
        elif fk == 2:
            fuel, fuel_kind = Fuel(name='zero-S', energy_MJ_per_kg=44.0, EI_H2O=1300.0,
                                   EI_CO2=3100.0, non_volatile_carbon_fraction=0.95,
                                   lifecycle_CO2=30.0, fuel_sulfur_content_nom=0.0,
                                   sulfate_yield_nom=rng.choice([0.0, 0.02])), 'zero-sulfur'
        elif fk == 4:
            # a fully offset fuel: life-cycle CO2 is known and exactly zero
            fuel, fuel_kind = Fuel(name='net-zero', energy_MJ_per_kg=43.5, EI_H2O=1250.0,
                                   EI_CO2=3150.0, non_volatile_carbon_fraction=0.95,
                                   lifecycle_CO2=0.0, fuel_sulfur_content_nom=rng.choice([0.0, 15.0]),
                                   sulfate_yield_nom=0.02), 'zero-life-cycle-CO2'
        else:
            fuel, fuel_kind = Fuel(name='SAF', energy_MJ_per_kg=44.1, EI_H2O=1356.72515,
                                   EI_CO2=3155.6, non_volatile_carbon_fraction=0.95,
                                   fuel_sulfur_content_nom=0.0,
                                   sulfate_yield_nom=0.0), 'SAF(no lifecycle data)'
        rec.cls(f'data:fuel={fuel_kind}')
        emis.run_config({k: v[0] for k, v in emis.OPTIONS.items()}, hdir)
        traj, tdesc = emis.gen_traj(rng, pm)
        rec.cls(f"data:split={tdesc['split']}")
        if spec['part'] < 2:
            rec.sample({'pm': pm.desc, 'trajectory': tdesc})
        # what the library prints goes to a stream like a real terminal / log file; every
        # other shard's stream can only encode ASCII (C locale, redirected output)
        if spec['part'] % 2:
            sink = io.TextIOWrapper(io.BytesIO(), encoding='ascii', errors='strict')
            rec.cls('stdout:ascii-only')
        else:
            sink = io.StringIO()
        for i, cfg in enumerate(emis.option_product()):
            # configurations are dealt to the shards by a hash, not by i % 16: the product's
            # fastest-varying switches (APU, GSE, life-cycle) would otherwise be constant within
            # a shard and thus tied to that shard's data set
            if ((i * 2654435761) >> 7) % spec['of'] != spec['part']:
                continue
            if 'only' in spec and i != spec['only']:
                continue
            case = {'spec': {k: spec[k] for k in ('seed', 'part', 'of', 'dataset')}, 'k': i,
                    'config': cfg}
            emis.run_config(cfg, hdir)
            rec.ev()
            rec.count('configurations_executed')
            for k, v in cfg.items():
                rec.cls(f'{k}={v}:executed')
            try:
                with contextlib.redirect_stdout(sink):
                    em = compute_emissions(pm, fuel, traj)
            except Exception as e:  # noqa: BLE001
                kind = emis.classify_exception(e, cfg)
                if kind == 'named-refusal':
                    rec.cls('outcome:named-refusal', f'refusal:{type(e).__name__}:{str(e)[:60]}')
                    continue
                if isinstance(e, RuntimeError) and 'Lifecycle CO2 data not available' in str(e) \
                        and fuel.lifecycle_CO2 is None and cfg['lifecycle_enabled']:
                    rec.cls('outcome:refused:fuel-without-lifecycle-data')
                    continue
                if isinstance(e, ValueError) and emis.NO_EDB_MSG in str(e) \
                        and pm.desc['nvpm_data'] == 'no-engine-database-entry' \
                        and cfg['pmnvol_method'] in ('meem', 'scope11'):
                    # the only methods that read the engine data base
                    rec.cls('outcome:refused:no-engine-database-entry')
                    continue
                import traceback
                tb = traceback.extract_tb(e.__traceback__)[-1]
                rec.violation(f'internal error instead of a result or a named refusal: '
                              f'{type(e).__name__} in {tb.name}',
                              {'error': f'{type(e).__name__}: {str(e)[:160]}',
                               'where': f'{Path(tb.filename).name}:{tb.lineno} {tb.name}',
                               'config': cfg}, case)
                continue
            probs = emis.check_inventory(em, pm, fuel, traj, cfg) + \
                emis.check_switched_off(em, cfg)
            if probs:
                mech, det = probs[0]
                rec.violation(mech, {**det, 'config': cfg, 'more': [p[0] for p in probs[1:4]]},
                              case)
            else:
                rec.cls('outcome:balanced')
    finally:
        Config.reset()
        shutil.rmtree(hdir, ignore_errors=True)
