"""C11 — every documented emissions option combination works or is refused by name.

The full Cartesian product of the documented option values (41 472
configurations) is executed on the real compute_emissions; each outcome is
classified {balanced inventory (C01's oracle), named refusal, internal error}.
"""

from __future__ import annotations

import random
import shutil
import tempfile
from pathlib import Path

ID = 'C11'
LEVEL = 'exploration'
EXHAUSTIVE = True
RULE = ('the FULL Cartesian product of the documented emissions options (2x2x2x2x3x3x3x3x4x2x2x2 '
        '= 41 472 configurations; exhaustive over that space) is loaded into the real Config '
        'and compute_emissions is run on generated performance-model data / trajectories '
        '(one data set per shard: quick 16, thorough 96); outcome classes: balanced inventory by the '
        'independent re-summation oracle of C01 + switched-off species absent or zero in '
        'trajectory and LTO parts | refusal (NotImplementedError/ValueError/RuntimeError whose '
        'message names the configured unsupported method) | internal error (anything else) = '
        'violation; class = outcome per option value')
ASSUMPTIONS = [
    'fuel fixed to conventional_jetA (fuel is not one of the documented option switches)',
    'trajectory top altitude >= 6 km (MEEM low-profile NaN is finding C12-meem-nan-low-top-altitude)',
]
SHARD_TIMEOUT = {'quick': 900, 'thorough': 5400}
LEVEL_TEXT = ('Exhaustive over the finite option product (every one of the 41 472 '
              'combinations is executed), exploration over the data the product is run on.')
LEVEL_NOTE = 'The oracle for "balanced" is C01\'s independent re-summation.'
TECHNIQUE = 'exhaustive configuration enumeration with outcome classification + conservation oracle'


def plan(tier, seed):
    nsets = 1 if tier == 'quick' else 6
    return [{'seed': seed * 1000 + d, 'part': i, 'of': 16, 'dataset': d}
            for d in range(nsets) for i in range(16)]


def required(tier):
    from vlib.emis import OPTIONS
    cl = ['outcome:balanced', 'outcome:named-refusal']
    for k, vals in OPTIONS.items():
        for v in vals:
            cl.append(f'{k}={v}:executed')
    return {'classes': cl, 'counters': {'configurations_executed': 41472}, 'evaluations': 41472}


def run_shard(spec, rec):
    import contextlib
    import io

    from AEIC.config import Config
    from AEIC.emissions import compute_emissions
    from vlib import emis

    hdir = Path(tempfile.mkdtemp(prefix='c11-'))
    try:
        # every shard runs its slice of the product on its own data set (16 per product pass)
        rng = random.Random(f"c11-{spec['seed']}-{spec['part']}")
        pm = emis.gen_pm(rng, hostile=(spec['dataset'] + spec['part']) % 2 == 1)
        if (spec['dataset'] + spec['part']) % 5 == 2:
            pm.apu = None
            pm.desc['apu'] = 'none'
        for kk in ('flows', 'nvpm_data', 'apu'):
            rec.cls(f'data:{kk}={pm.desc[kk]}')
        fuel, _ = emis.gen_fuel(random.Random(1))          # jet-A
        emis.run_config({k: v[0] for k, v in emis.OPTIONS.items()}, hdir)
        traj, tdesc = emis.gen_traj(rng, pm)
        rec.cls(f"data:split={tdesc['split']}")
        if spec['part'] < 2:
            rec.sample({'pm': pm.desc, 'trajectory': tdesc})
        sink = io.StringIO()
        for i, cfg in enumerate(emis.option_product()):
            if i % spec['of'] != spec['part']:
                continue
            if 'only' in spec and i != spec['only']:
                continue
            case = {'spec': {k: spec[k] for k in ('seed', 'part', 'of', 'dataset')}, 'k': i,
                    'config': cfg}
            emis.run_config(cfg, hdir)
            rec.ev()
            rec.count('configurations_executed')
            for k, v in cfg.items():
                rec.cls(f'{k}={v}:executed')
            try:
                with contextlib.redirect_stdout(sink):
                    em = compute_emissions(pm, fuel, traj)
            except Exception as e:  # noqa: BLE001
                kind = emis.classify_exception(e, cfg)
                if kind == 'named-refusal':
                    rec.cls('outcome:named-refusal', f'refusal:{type(e).__name__}:{str(e)[:60]}')
                    continue
                import traceback
                tb = traceback.extract_tb(e.__traceback__)[-1]
                rec.violation(f'internal error instead of a result or a named refusal: '
                              f'{type(e).__name__} in {tb.name}',
                              {'error': f'{type(e).__name__}: {str(e)[:160]}',
                               'where': f'{Path(tb.filename).name}:{tb.lineno} {tb.name}',
                               'config': cfg}, case)
                continue
            probs = emis.check_inventory(em, pm, fuel, traj, cfg) + \
                emis.check_switched_off(em, cfg)
            if probs:
                mech, det = probs[0]
                rec.violation(mech, {**det, 'config': cfg, 'more': [p[0] for p in probs[1:4]]},
                              case)
            else:
                rec.cls('outcome:balanced')
    finally:
        Config.reset()
        shutil.rmtree(hdir, ignore_errors=True)
