"""Generator of OAG schedule rows over the harness world and the stdlib-only
oracle that says which rows must be imported and which flight instances each
row implies (datetime + zoneinfo; no pandas, no AEIC)."""

from __future__ import annotations

import csv
import math
from datetime import UTC, date, datetime, timedelta
from pathlib import Path
from zoneinfo import ZoneInfo

from vlib import geodesy

COLUMNS = ["carrier", "fltno", "carrier2", "fltno2", "depapt", "depcity", "depctry", "arrapt",
           "arrcity", "arrctry", "deptim", "arrtim", "arrday", "elptim", "days", "stops",
           "intapt", "acftchange", "govt_app", "comm10_50", "genacft", "inpacft", "service",
           "seats", "tons", "restrict", "domint", "efffrom", "effto", "routing", "longest",
           "distance", "operating", "duplicate"]
EXCLUDE_EQUIPMENT = {'BUS', 'HOV', 'LCH', 'LMO', 'RFS', 'TRN'}
MILE_KM = 1.609344
_tf = None


def timezone_of(lat, lon) -> str:
    global _tf
    if _tf is None:
        from timezonefinder import TimezoneFinder
        _tf = TimezoneFinder()
    return _tf.certain_timezone_at(lat=lat, lng=lon)


_ZONES: dict = {}


def _transitions(tz: str, year: int) -> list:
    """Dates in ``year`` on which the zone's UTC offset changes."""
    key = (tz, year)
    if key not in _ZONES:
        z = ZoneInfo(tz)
        out = []
        d = date(year, 1, 1)
        prev = datetime(d.year, d.month, d.day, 0, 0, tzinfo=z).utcoffset()
        while d.year == year:
            nxt = d + timedelta(days=1)
            off = datetime(nxt.year, nxt.month, nxt.day, 0, 0, tzinfo=z).utcoffset()
            if off != prev:
                out.append(d)
            prev = off
            d = nxt
        _ZONES[key] = out
    return _ZONES[key]


def true_distance_km(a: dict, b: dict) -> float:
    r = geodesy.inverse(a['lat'], a['lon'], b['lat'], b['lon'])
    if r is None or r[3] > 40:
        from pyproj import Geod
        return Geod(ellps='WGS84').inv(lons1=a['lon'], lats1=a['lat'], lons2=b['lon'],
                                       lats2=b['lat'])[2] / 1000.0
    return r[0] / 1000.0


def gen_row(rng, world: dict, year: int, line: int) -> dict:
    """One schedule row + the harness' knowledge about it (under key '_h')."""
    codes = sorted(world)
    dep, arr = rng.sample(codes, 2)
    # one row in eight: both airports in ONE time zone that changes its clocks in the data
    # year, flight around the hour of the change on the day of the change
    dst_cross = None
    if rng.random() < 0.125:
        zones = _ZONES.get(id(world))
        if zones is None:
            zones = {}
            for c_ in codes:
                zones.setdefault(timezone_of(world[c_]['lat'], world[c_]['lon']), []).append(c_)
            _ZONES[id(world)] = zones
            _ZONES[('keep', id(world))] = world
        cands = [(z, cs) for z, cs in sorted(zones.items())
                 if z and len(cs) >= 2 and _transitions(z, year)]
        if cands:
            z, cs = rng.choice(cands)
            dep, arr = rng.sample(cs, 2)
            dst_cross = rng.choice(_transitions(z, year))
    skip = None
    r = rng.random()
    row = {c: '' for c in COLUMNS}
    row.update(carrier=rng.choice(['AA', 'LH', 'NH', 'ZZ']), fltno=str(rng.randint(1, 9999)),
               depctry=world[dep]['country'], arrctry=world[arr]['country'], stops='00',
               genacft=rng.choice(['737', '320', 'AT7']), inpacft=rng.choice(['738', '320',
                                                                               'AT7', '77W']),
               service=rng.choice(['J', 'J', 'F', 'C', 'G']), seats=f'{rng.randint(1, 500):04d}',
               longest=rng.choice(['L', '']), operating=rng.choice(['', 'O', 'Y']))
    if r < 0.05:
        row['service'] = rng.choice(['V', 'U'])
        skip = 'service'
    elif r < 0.10:
        row['stops'] = rng.choice(['01', '02'])
        skip = 'stops'
    elif r < 0.15:
        row['operating'] = 'N'
        skip = 'non-operating'
    elif r < 0.20:
        row['genacft'] = rng.choice(sorted(EXCLUDE_EQUIPMENT))
        skip = 'equipment'
    elif r < 0.25:
        if rng.random() < 0.5:
            dep = rng.choice(['QQ1', 'ZZ9', 'XXX'])
        else:
            arr = rng.choice(['QQ1', 'ZZ9', 'XXX'])
        skip = 'unknown-airport'
    row['depapt'], row['arrapt'] = dep, arr
    # ---- distance ---------------------------------------------------------------
    margin_cls = 'n/a'
    if dep in world and arr in world:
        true_km = true_distance_km(world[dep], world[arr])
        c = rng.random()
        if c < 0.35:
            given_km, margin_cls = true_km * rng.uniform(0.97, 1.03), 'exact-ish'
        elif c < 0.5:      # inside the absolute threshold although > 10 %
            given_km = true_km + rng.choice([-1, 1]) * rng.uniform(0, 44)
            margin_cls = 'within-50km'
        elif c < 0.65:     # inside the relative threshold although > 50 km
            given_km = true_km * (1 + rng.choice([-1, 1]) * rng.uniform(0.0, 0.093))
            margin_cls = 'within-10pct'
        elif c < 0.85:     # outside both
            given_km = true_km * (1 + rng.choice([-1, 1]) * rng.uniform(0.112, 0.6)) + \
                rng.choice([-1, 1]) * 0
            if abs(given_km - true_km) <= 56:
                given_km = true_km + 56 + true_km * 0.112
            margin_cls = 'outside-both'
        elif c < 0.92:
            given_km, margin_cls = 0.0, 'zero-given'
        else:
            given_km, margin_cls = true_km, 'exact'
        miles = max(0, int(round(given_km / MILE_KM)))
        given_km = miles * MILE_KM
        # keep clear of the thresholds after rounding to whole miles
        ad = abs(given_km - true_km)
        pct = 100 * ad / true_km if true_km > 0 else math.inf
        if miles > 0 and (abs(ad - 50) < 1.0 or abs(pct - 10) < 0.15):
            miles = int(round(true_km / MILE_KM))
            given_km = miles * MILE_KM
            margin_cls = 'exact'
            ad = abs(given_km - true_km)
            pct = 100 * ad / true_km if true_km > 0 else math.inf
        plausible = true_km >= 1.0 and (miles == 0 or ad <= 50 or pct <= 10)
        if skip is None and not plausible:
            skip = 'distance'
    else:
        miles, true_km, plausible = rng.randint(50, 3000), None, None
    row['distance'] = f'{miles:07d}'
    # ---- dates, days, times --------------------------------------------------------
    kind = rng.choice(['single', 'week', 'dst-spring', 'dst-autumn', 'months', 'year',
                       'open-from', 'open-to', 'open-both', 'open-to-from-previous-year',
                       'open-from-to-next-year', 'open-to-from-next-year',
                       'open-from-to-previous-year'])
    y = year
    if kind == 'single':
        d0 = date(y, 1, 1) + timedelta(days=rng.randint(0, 364))
        if rng.random() < 0.3:      # calendar corners
            d0 = rng.choice([date(y, 1, 1), date(y, 12, 31), date(y, 2, 28), date(y, 3, 1)]
                            + ([date(y, 2, 29)] if y % 4 == 0 else []))
        d1 = d0
    elif kind == 'week':
        d0 = date(y, 1, 1) + timedelta(days=rng.randint(0, 350))
        if rng.random() < 0.25:     # around the end of February / of the year
            d0 = rng.choice([date(y, 2, 24), date(y, 12, 20)]) + timedelta(days=rng.randint(0, 3))
        d1 = min(date(y, 12, 31), d0 + timedelta(days=rng.randint(1, 13)))
    elif kind == 'dst-spring':
        d0 = date(y, 3, rng.randint(1, 12))
        d1 = date(y, rng.choice([3, 4]), rng.randint(25, 30))
    elif kind == 'dst-autumn':
        d0 = date(y, rng.choice([9, 10]), rng.randint(15, 28))
        d1 = date(y, 11, rng.randint(5, 12))
    elif kind == 'months':
        d0 = date(y, rng.randint(1, 6), rng.randint(1, 28))
        d1 = date(y, rng.randint(7, 12), rng.randint(1, 28))
    else:
        d0, d1 = date(y, 1, 1), date(y, 12, 31)
        if kind == 'open-from':
            d1 = date(y, rng.randint(1, 12), rng.randint(1, 28))
        if kind == 'open-to':
            d0 = date(y, rng.randint(1, 12), rng.randint(1, 28))
    row['efffrom'] = '00000000' if kind in ('open-from', 'open-both') else d0.strftime('%Y%m%d')
    row['effto'] = '99999999' if kind in ('open-to', 'open-both') else d1.strftime('%Y%m%d')
    if kind == 'open-to-from-previous-year':
        # the stated start lies in the previous year, the open end still means 31 Dec of
        # the DATA year
        d0 = date(y - 1, 12, rng.randint(20, 31))
        d1 = date(y, 1, rng.randint(3, 20)) if False else date(y, 12, 31)
        row['efffrom'], row['effto'] = d0.strftime('%Y%m%d'), '99999999'
    if kind == 'open-from-to-next-year':
        d0 = date(y, 1, 1)
        d1 = date(y + 1, 1, rng.randint(1, 12))
        row['efffrom'], row['effto'] = '00000000', d1.strftime('%Y%m%d')
    if kind == 'open-to-from-next-year':
        # starts after the data year has ended: the (open) range is empty in the data year
        d0 = date(y + 1, 1, rng.randint(1, 20))
        d1 = date(y, 12, 31)
        row['efffrom'], row['effto'] = d0.strftime('%Y%m%d'), '99999999'
    if kind == 'open-from-to-previous-year':
        # ended before the data year began
        d0 = date(y, 1, 1)
        d1 = date(y - 1, 12, rng.randint(10, 31))
        row['efffrom'], row['effto'] = '00000000', d1.strftime('%Y%m%d')
    days = sorted(rng.sample(range(1, 8), rng.randint(1, 7)))
    if rng.random() < 0.1:
        days = list(range(1, 8))
    row['days'] = ''.join(str(dd) if dd in days else ' ' for dd in range(1, 8))
    if rng.random() < 0.3:
        dh, dm = rng.choice([(0, 0), (23, 59), (2, 30), (1, 30), (2, 0), (12, 0)])
    else:
        dh, dm = rng.randint(0, 23), rng.randint(0, 59)
    ah, am = rng.randint(0, 23), rng.randint(0, 59)
    off_txt = rng.choice(['', ' ', '0', '1', '1', '2', 'P'])
    if dst_cross is not None:
        kind = 'dst-change-day-same-zone'
        d0 = max(date(y, 1, 1), dst_cross - timedelta(days=rng.randint(0, 3)))
        d1 = min(date(y, 12, 31), dst_cross + timedelta(days=rng.randint(0, 3)))
        row['efffrom'], row['effto'] = d0.strftime('%Y%m%d'), d1.strftime('%Y%m%d')
        days = list(range(1, 8))
        row['days'] = '1234567'
        dh, dm = rng.choice([0, 0, 1]), rng.randint(0, 59)       # before the change
        ah, am = rng.randint(3, 6), rng.randint(0, 59)           # after it
        off_txt = rng.choice(['', '0', ' '])
    row['deptim'], row['arrtim'] = f'{dh:02d}{dm:02d}', f'{ah:02d}{am:02d}'
    row['arrday'] = off_txt
    off = {'P': -1, '': 0, ' ': 0}.get(off_txt, None)
    if off is None:
        off = int(off_txt)
    row['_h'] = {'line': line, 'skip': skip, 'dep': dep, 'arr': arr, 'true_km': true_km,
                 'given_km': miles * MILE_KM, 'miles': miles, 'plausible': plausible,
                 'margin': margin_cls, 'range_kind': kind, 'd0': d0, 'd1': d1, 'days': days,
                 'dep_hm': (dh, dm), 'arr_hm': (ah, am), 'offset': off}
    return row


def _candidates(naive: datetime, tz: str) -> set[int]:
    """UTC epoch seconds of a local wall time: both folds (ambiguous / non-existent
    local times have two defensible readings)."""
    z = ZoneInfo(tz)
    out = set()
    for fold in (0, 1):
        out.add(int(naive.replace(tzinfo=z, fold=fold).timestamp()))
    return out


def expected_instances(h: dict, world: dict):
    """-> (list of (set(dep candidates), set(arr candidates)) kept, n_dropped,
    n_ambiguous_order) for an accepted row."""
    tz_o = timezone_of(world[h['dep']]['lat'], world[h['dep']]['lon'])
    tz_d = timezone_of(world[h['arr']]['lat'], world[h['arr']]['lon'])
    kept, dropped, unsure = [], 0, 0
    d = h['d0']
    while d <= h['d1']:
        if d.isoweekday() in h['days']:
            dep_local = datetime(d.year, d.month, d.day) + timedelta(hours=h['dep_hm'][0],
                                                                      minutes=h['dep_hm'][1])
            arr_local = datetime(d.year, d.month, d.day) + timedelta(
                days=h['offset'], hours=h['arr_hm'][0], minutes=h['arr_hm'][1])
            dc, ac = _candidates(dep_local, tz_o), _candidates(arr_local, tz_d)
            all_before = all(a < dd for a in ac for dd in dc)
            none_before = all(a >= dd for a in ac for dd in dc)
            if all_before:
                dropped += 1
            elif none_before:
                kept.append((dc, ac, d))
            else:
                unsure += 1
                kept.append((dc, ac, d, 'maybe'))
        d += timedelta(days=1)
    return kept, dropped, unsure, tz_o, tz_d


def write_csv(path: Path, rows: list[dict]):
    with open(path, 'w', newline='') as f:
        w = csv.DictWriter(f, fieldnames=COLUMNS, quoting=csv.QUOTE_ALL, extrasaction='ignore')
        w.writeheader()
        for r in rows:
            w.writerow({c: r.get(c, '') for c in COLUMNS})


def utc_day(ts: int) -> int:
    return ts // 86400


def ts_to_date(ts: int) -> date:
    return datetime.fromtimestamp(ts, UTC).date()
