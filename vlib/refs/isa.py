"""Independent scalar ISA (two layers, 0-25 km), written from the standard's
equations with its own constants (ICAO Doc 7488 / BADA user manual 3.x)."""

from __future__ import annotations

import math

T0 = 288.15          # K
P0 = 101325.0        # Pa
G0 = 9.80665         # m/s2
R = 287.05287        # J/(kg K)
LAPSE = -0.0065      # K/m
H_TROP = 11000.0     # m
T_TROP = T0 + LAPSE * H_TROP            # 216.65 K
P_TROP = P0 * (T_TROP / T0) ** (-G0 / (LAPSE * R))


def temperature(h: float) -> float:
    if h > 25000:
        raise ValueError('above 25 km')
    return T0 + LAPSE * h if h <= H_TROP else T_TROP


def pressure(h: float) -> float:
    if h > 25000:
        raise ValueError('above 25 km')
    if h <= H_TROP:
        return P0 * ((T0 + LAPSE * h) / T0) ** (-G0 / (LAPSE * R))
    return P_TROP * math.exp(-G0 / (R * T_TROP) * (h - H_TROP))


def altitude(p: float) -> float:
    if p >= P_TROP:
        return T0 / LAPSE * ((p / P0) ** (-LAPSE * R / G0) - 1.0)
    return H_TROP - R * T_TROP / G0 * math.log(p / P_TROP)
