"""Independent scalar BADA 3.x equations (EUROCONTROL BADA User Manual 3.x,
sections 3.2, 3.6, 3.7, 3.9).  Plain math, one point at a time, own constants."""

from __future__ import annotations

import math

from vlib.refs import isa

G0 = 9.80665
R_AIR = 287.05287
M2FT = 1.0 / 0.3048
MS2KT = 1.0 / 0.514444        # the library's documented knot (0.514444 m/s; exact: 0.514444...4)


def max_climb_thrust_isa(p, h, v):
    hft, vkt = h * M2FT, v * MS2KT
    et = p['engine_type']
    if et == 'Jet':                                         # (3.7-1)
        return p['c_tc1'] * (1.0 - hft / p['c_tc2'] + p['c_tc3'] * hft * hft)
    if et == 'Turboprop':                                   # (3.7-2)
        return p['c_tc1'] / vkt * (1.0 - hft / p['c_tc2']) + p['c_tc3']
    return p['c_tc1'] * (1.0 - hft / p['c_tc2']) + p['c_tc3'] / vkt      # (3.7-3) piston


def max_climb_thrust(p, h, v, T):
    dT_eff = (T - isa.temperature(h)) - p['c_tc4']          # (3.7-5)
    corr = min(max(dT_eff * max(0.0, p['c_tc5']), 0.0), 0.4)   # (3.7-6), (3.7-7)
    return max_climb_thrust_isa(p, h, v) * (1.0 - corr)     # (3.7-4)


def thrust(p, m, T, h, v, rocd, acc, in_cruise):
    """-> (thrust N, branch label)"""
    rho = isa.pressure(h) / (R_AIR * T)
    cl = 2.0 * m * G0 / (rho * p['S_ref'] * v * v)          # (3.6-1)
    cd = p['c_d0cr'] + p['c_d2cr'] * cl * cl                # (3.6-2)
    drag = 0.5 * rho * p['S_ref'] * v * v * cd              # (3.6-5)
    thr = drag + m * (G0 * rocd / v + acc)                  # (3.2-1) total energy
    tmax = max_climb_thrust(p, h, v, T)
    if in_cruise:
        tmax *= p['c_tcr']                                  # (3.7-8)
    if thr > tmax:
        thr, branch = tmax, 'capped-by-max-' + ('cruise' if in_cruise else 'climb')
    else:
        branch = 'total-energy'
    if thr < 0:
        c = p['c_tdes_high'] if h * M2FT > p['h_p_des'] else p['c_tdes_low']   # (3.7-9/10)
        thr = c * max_climb_thrust(p, h, v, T)
        branch = 'descent-' + ('high' if h * M2FT > p['h_p_des'] else 'low')
    return thr, branch


def total_energy_terms(p, m, T, h, v, rocd, acc):
    """-> (total-energy thrust, sum of the magnitudes of its terms): how well the sum is
    determined in floating point at all when drag and the (negative) potential / kinetic
    energy rates cancel"""
    rho = isa.pressure(h) / (R_AIR * T)
    cl = 2.0 * m * G0 / (rho * p['S_ref'] * v * v)
    cd = p['c_d0cr'] + p['c_d2cr'] * cl * cl
    drag = 0.5 * rho * p['S_ref'] * v * v * cd
    return (drag + m * (G0 * rocd / v + acc),
            abs(drag) + abs(m * G0 * rocd / v) + abs(m * acc))


def fuel_flow(p, thr, v, in_cruise):
    """kg/s"""
    vkt = v * MS2KT
    et = p['engine_type']
    if et == 'Jet':
        eta = p['c_f1'] * (1.0 + vkt / p['c_f2'])           # (3.9-1) kg/(min kN)
        f = eta * thr / 60000.0                             # (3.9-3)
    elif et == 'Turboprop':
        eta = p['c_f1'] * (1.0 - vkt / p['c_f2']) * (vkt / 1000.0)   # (3.9-2)
        f = eta * thr / 60000.0
    else:
        f = p['c_f1'] / 60.0                                # (3.9-3) piston: C_f1 in kg/min
    return f * p['c_fcr'] if in_cruise else f               # (3.9-6)


def specific_ground_range(p, m, T, h, v, rocd, acc, in_cruise, gs):
    thr, branch = thrust(p, m, T, h, v, rocd, acc, in_cruise)
    f = fuel_flow(p, thr, v, in_cruise)
    return (gs / f if f != 0 else 0.0), thr, f, branch
