"""Independent scalar re-implementations of the emission-index equations the
AEIC sources cite (DuBois & Paynter 2006 FFM2/BFFM2, SAGE v1.5 HC/CO rules,
ACRP low-thrust factor, Wayson 2009 FOA3, SCOPE11).  Plain ``math``, one point
at a time, no numpy, no AEIC imports."""

from __future__ import annotations

import math

MODES = ('idle', 'approach', 'climb', 'takeoff')


def ffm2_sls_fuel_flow(ff, p_amb, t_amb, mach, z=3.8, n_eng=2):
    """DuBois & Paynter eq. 40."""
    delta = p_amb / 101325.0
    theta = t_amb / 288.15
    return (ff / n_eng) * theta ** z / delta * math.exp(0.2 * mach * mach)


def thrust_category(ff, ff_cal):
    """ff_cal: dict mode->flow.  Mid-point thresholds."""
    low = (ff_cal['idle'] + ff_cal['approach']) / 2.0
    app = (ff_cal['approach'] + ff_cal['climb']) / 2.0
    if ff <= low:
        return 'idle'
    if ff > app:
        return 'climb'
    return 'approach'


def nox_speciation(cat):
    hono = {'idle': 4.5, 'approach': 4.5, 'climb': 0.75, 'takeoff': 0.75}[cat]
    no2_of_rest = {'idle': 86.5, 'approach': 16.0, 'climb': 7.5, 'takeoff': 7.5}[cat]
    no2 = no2_of_rest * (100.0 - hono) / 100.0
    no = 100.0 - hono - no2
    return no / 100.0, no2 / 100.0, hono / 100.0


def humidity_correction(t_amb, p_amb):
    """BFFM2 eqs. 44-45 at 60 % relative humidity."""
    theta = t_amb / 288.15
    delta = p_amb / 101325.0
    p_psia = delta * 14.696
    tt = t_amb + 0.01
    beta = (7.90298 * (1.0 - 373.16 / tt) + 3.00571
            + 5.02808 * math.log10(373.16 / tt)
            + 1.3816e-7 * (1.0 - 10.0 ** (11.344 * (1.0 - tt / 373.16)))
            + 8.1328e-3 * (10.0 ** (3.49149 * (1.0 - 373.16 / tt)) - 1.0))
    pv = 0.014504 * 10.0 ** beta
    phi = 0.6
    omega = 0.62198 * phi * pv / (p_psia - phi * pv)
    H = -19.0 * (omega - 0.0063)
    return math.exp(H) * math.sqrt(delta ** 1.02 / theta ** 3.3)


def bffm2_nox(ff_sls, ei_cal, ff_cal, t_amb, p_amb):
    """-> (NOx, NO, NO2, HONO, category).  Single log-log least-squares line through
    the four certification points (what the code documents), then eq. 45."""
    xs = [math.log10(ff_cal[m] if ff_cal[m] > 0 else 1e-2) for m in MODES]
    ys = [math.log10(ei_cal[m]) for m in MODES]
    n = 4.0
    mx, my = math.fsum(xs) / n, math.fsum(ys) / n
    sxx = math.fsum((x - mx) ** 2 for x in xs)
    sxy = math.fsum((x - mx) * (y - my) for x, y in zip(xs, ys))
    slope = sxy / sxx
    icpt = my - slope * mx
    x = math.log10(ff_sls if ff_sls > 0 else 1e-2)
    nox = 10.0 ** (slope * x + icpt) * humidity_correction(t_amb, p_amb)
    cat = thrust_category(ff_sls, ff_cal)
    no, no2, hono = nox_speciation(cat)
    return nox, nox * no, nox * no2, nox * hono, cat


def hcco(ff, ei_cal, ff_cal, t_amb, p_amb):
    """BFFM2 bilinear HC/CO fit with the SAGE v1.5 rules and the ACRP low-thrust
    factor.  -> (EI, branch label)."""
    L = math.log10
    den = L(ff_cal['approach']) - L(ff_cal['idle'])
    num = L(ei_cal['approach']) - L(ei_cal['idle'])
    slope = 0.0 if abs(den) <= 1e-8 else num / den
    base_f, base_e = L(ff_cal['idle']), L(ei_cal['idle'])
    horiz = 0.5 * (L(ei_cal['climb']) + L(ei_cal['takeoff']))
    if abs(slope) <= 1e-8:
        xi = L(ff_cal['approach'])
    else:
        xi = (2.0 * L(ff_cal['idle']) * slope + L(ei_cal['climb']) + L(ei_cal['takeoff'])
              - 2.0 * L(ei_cal['idle'])) / (2.0 * slope)
    l1, l2 = L(ff_cal['approach']), L(ff_cal['climb'])
    if xi > l2:
        xi, branch = l2, 'intercept-clamped-to-climb'
    elif xi < l1 and slope < 0.0:
        horiz, xi, branch = L(ei_cal['approach']), l1, 'intercept-clamped-to-approach'
    elif slope >= 0.0:
        slope, base_f, base_e, xi, branch = 0.0, 0.0, horiz, l1, 'non-negative-slope-flat'
    else:
        branch = 'regular-bilinear'
    if ff > 0.0:
        lf = L(ff)
        if lf < xi:
            val = 10.0 ** (slope * (lf - base_f) + base_e)
            seg = 'slanted'
        else:
            val = 10.0 ** horiz
            seg = 'horizontal'
    else:
        # log_ff stays 0 for non-positive flow: only the 'upper' mask can apply
        val = 10.0 ** horiz if 0.0 >= xi else 0.0
        seg = 'non-positive-flow'
    if ff < ff_cal['idle']:
        val *= 1.0 + (-52.0) * (ff - ff_cal['idle'])
        seg += '+low-thrust'
    theta, delta = t_amb / 288.15, p_amb / 101325.0
    return val * theta ** 3.3 / delta ** 1.02, branch + ':' + seg


def sox(sulfur_ppm, sulfate_yield):
    s = sulfur_ppm / 1.0e6
    so2 = s * (1.0 - sulfate_yield) * 64.0 / 32.0 * 1.0e3
    so4 = s * sulfate_yield * 96.0 / 32.0 * 1.0e3
    return so2 + so4, so2, so4


def foa3(thrust_pct, hc_ei):
    xs = [7.0, 30.0, 85.0, 100.0]
    ds = [6.17, 56.25, 76.0, 115.0]
    if thrust_pct <= xs[0]:
        d = ds[0]
    elif thrust_pct >= xs[-1]:
        d = ds[-1]
    else:
        for i in range(3):
            if xs[i] <= thrust_pct <= xs[i + 1]:
                d = ds[i] + (ds[i + 1] - ds[i]) * (thrust_pct - xs[i]) / (xs[i + 1] - xs[i])
                break
    return d * hc_ei / 1000.0


def pmvol_fuel_flow(mode):
    oc = 20.0e-3
    lube = 0.15 if mode == 'idle' else 0.50
    return oc / (1.0 - lube), oc


def scope11(sn, engine_type, bpr, mode):
    afr = {'idle': 106.0, 'approach': 83.0, 'climb': 51.0, 'takeoff': 45.0}[mode]
    if sn == -1 or sn == 0:
        return 0.0
    sn = min(sn, 40.0)
    cbc = 0.6484 * math.exp(0.0766 * sn) / (1.0 + math.exp(-1.098 * (sn - 3.064)))
    if engine_type == 'MTF':
        k = math.log((3.219 * cbc * (1 + bpr) * 1000 + 312.5) / (cbc * (1 + bpr) * 1000 + 42.6))
        q = 0.776 * afr * (1 + bpr) + 0.767
    elif engine_type == 'TF':
        k = math.log((3.219 * cbc * 1000 + 312.5) / (cbc * 1000 + 42.6))
        q = 0.776 * afr + 0.767
    else:
        k = math.log((3.219 * cbc * 1000 + 312.5) / (cbc * 1000 + 42.6))
        q = 0.0
    return k * cbc * q / 1000.0
