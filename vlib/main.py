"""Driver: ./check <ID> [--tier quick|thorough] [--replay FILE]

Fans the check's shards out over subprocesses (one fresh interpreter per
shard, importing the working tree of /repo), merges what the monitors
observed, writes evidence/<ID>.json and prints the verdict lines.

Exit status: 0 held on everything observed (known findings are reported as
KNOWN-FINDING lines), 1 violation (VIOLATION line per mechanism), 2
inconclusive (a deciding monitor was not reached / a shard timed out).
"""

from __future__ import annotations

import argparse
import hashlib
import importlib
import json
import os
import subprocess
import sys
import tempfile
import time
from collections import Counter
from concurrent.futures import ThreadPoolExecutor
from pathlib import Path

from vlib import boot

VERIF = boot.VERIF


def _run_one(prop: str, spec: dict, timeout: float) -> dict:
    with tempfile.TemporaryDirectory(prefix='aeicv-') as td:
        specf = Path(td) / 'spec.json'
        outf = Path(td) / 'out.json'
        specf.write_text(json.dumps(spec))
        env = dict(os.environ)
        env['PYTHONHASHSEED'] = str(spec.get('hashseed', 0))    # checks may vary it per shard
        env['PYTHONPATH'] = str(VERIF)
        if os.environ.get('VERIF_REPO'):
            # developer option (tools/par_recheck.sh): monitor another working tree of the
            # repository instead of /repo, e.g. a scratch worktree with a seeded change
            env['PYTHONPATH'] = f"{VERIF}{os.pathsep}{boot.REPO / 'src'}"
        env['PYTHONDONTWRITEBYTECODE'] = '1'
        env.pop('PYTHONOPTIMIZE', None)
        if spec.get('optimize'):
            env['PYTHONOPTIMIZE'] = '1'
        for k_ in ('TZ', 'LC_ALL', 'LANG', 'PYTHONUTF8', 'PYTHONCOERCECLOCALE', 'PYTHONIOENCODING'):
            env.pop(k_, None)
        env['TZ'] = 'UTC'
        env.update(spec.get('env') or {})
        env.pop('AEIC_PATH', None)
        env['TMPDIR'] = td
        t0 = time.time()
        try:
            p = subprocess.run(
                [boot.PY, '-X', 'faulthandler', '-m', 'vlib.shard', prop, str(specf),
                 str(outf)],
                cwd=str(VERIF),
                env=env,
                stdout=subprocess.PIPE,
                stderr=subprocess.PIPE,
                timeout=timeout,
                text=True,
            )
        except subprocess.TimeoutExpired:
            return {'_status': 'timeout', '_spec': spec, '_wall': time.time() - t0}
        if outf.exists():
            try:
                res = json.loads(outf.read_text())
                res['_status'] = 'ok'
                res['_wall'] = time.time() - t0
                res['_spec'] = spec
                return res
            except json.JSONDecodeError:
                pass
        return {
            '_status': 'crash',
            '_spec': spec,
            '_rc': p.returncode,
            '_stderr': (p.stderr or '')[-3000:],
            '_stdout': (p.stdout or '')[-1000:],
            '_wall': time.time() - t0,
        }


def main(argv=None) -> int:
    ap = argparse.ArgumentParser()
    ap.add_argument('prop')
    ap.add_argument('--tier', default=os.environ.get('VERIF_TIER', 'quick'),
                    choices=['quick', 'thorough'])
    ap.add_argument('--replay', default=None)
    ap.add_argument('--jobs', type=int,
                    default=int(os.environ.get('VERIF_JOBS', os.cpu_count() or 4)))
    ap.add_argument('--no-evidence', action='store_true')
    args = ap.parse_args(argv)

    boot.boot()
    prop = args.prop.upper()
    seed = int(os.environ.get('VERIF_SEED', '0'))
    mod = importlib.import_module(f'checks.{prop.lower()}')
    t0 = time.time()

    if args.replay:
        rp = json.loads(Path(args.replay).read_text())
        case = rp['case']
        spec = dict(case.get('spec') or {})
        if 'k' in case:
            spec['only'] = case['k']
        spec['replay_case'] = case
        specs = [spec]
        tier = rp.get('tier', args.tier)
    else:
        tier = args.tier
        specs = mod.plan(tier, seed)
    for i, s in enumerate(specs):
        s.setdefault('shard', i)
        s.setdefault('tier', tier)
        # one shard in eight runs in an interpreter with assertions stripped (python -O):
        # behaviour the properties promise must not hang on `assert` statements
        if not args.replay and not getattr(mod, 'NO_OPTIMIZE', False):
            s.setdefault('optimize', i % 8 == 5)
        # ... and two in eight run in another process environment: a system time zone west /
        # east of UTC, the latter also with the plain C locale (ASCII default encoding for
        # files and standard output).  Nothing the properties promise depends on these.
        if not args.replay and not getattr(mod, 'NO_ENV_VARIATION', False):
            if i % 8 == 3:
                s.setdefault('env', {'TZ': 'America/New_York'})
            elif i % 8 == 6:
                s.setdefault('env', {'TZ': 'Asia/Tokyo', 'LC_ALL': 'C', 'LANG': 'C',
                                     'PYTHONUTF8': '0', 'PYTHONCOERCECLOCALE': '0'})

    timeout = getattr(mod, 'SHARD_TIMEOUT', {}).get(tier, 900 if tier == 'quick' else 7200)
    with ThreadPoolExecutor(max_workers=max(1, args.jobs)) as ex:
        results = list(ex.map(lambda s: _run_one(prop, s, timeout), specs))

    # ---- merge --------------------------------------------------------------
    evaluations = 0
    classes: Counter[str] = Counter()
    counters: Counter[str] = Counter()
    samples: list = []
    violations: list[dict] = []
    viol_mech: Counter[str] = Counter()
    known: Counter[str] = Counter()
    known_what: dict[str, str] = {}
    inconclusive: list[str] = []
    for r in results:
        if r['_status'] == 'timeout':
            inconclusive.append(f"shard {r['_spec'].get('shard')} timed out after "
                                f"{r['_wall']:.0f}s")
            continue
        if r['_status'] == 'crash':
            # A crash of the shard process itself.  The check decides whether a
            # native crash is a property violation (C03) via CRASH_IS_VIOLATION.
            lines = r['_stderr'].strip().splitlines()
            tail = lines[-12:]
            for j, ln in enumerate(lines):
                if ln.startswith('Fatal Python error'):
                    tail = [x for x in lines[j:j + 14] if not x.startswith('Extension modules')]
                    break
            if getattr(mod, 'CRASH_IS_VIOLATION', False) and r['_rc'] not in (0, 1, 2):
                violations.append({
                    'mechanism': 'native crash of the interpreter during the workload',
                    'detail': {'rc': r['_rc'], 'stderr_tail': tail},
                    'case': {'spec': r['_spec']},
                })
                viol_mech['native crash'] += 1
            else:
                inconclusive.append(
                    f"shard {r['_spec'].get('shard')} crashed rc={r['_rc']}: "
                    + ' | '.join(tail[-4:]))
            continue
        evaluations += r['evaluations']
        classes.update(r['classes'])
        counters.update(r['counters'])
        if r['_spec'].get('optimize'):
            counters['shards_run_with_python_-O'] += 1
        if r['_spec'].get('env'):
            counters['shards_run_with_TZ_' + r['_spec']['env'].get('TZ', '?')] += 1
            if r['_spec']['env'].get('LC_ALL') == 'C':
                counters['shards_run_with_C_locale'] += 1
        for s in r['samples']:
            if len(samples) < 6:
                samples.append(s)
        for v in r['violations']:
            if v['mechanism'] not in {x['mechanism'] for x in violations}:
                v['case'] = v.get('case') or {}
                if isinstance(v['case'], dict):
                    v['case'].setdefault('spec', r['_spec'])
                    if isinstance(v['case']['spec'], dict) and r['_spec'].get('optimize'):
                        v['case']['spec']['optimize'] = True
                        v['mechanism_note'] = 'observed in a python -O shard'
                    if isinstance(v['case']['spec'], dict) and r['_spec'].get('env'):
                        v['case']['spec']['env'] = r['_spec']['env']
                        v['mechanism_note'] = f"observed with environment {r['_spec']['env']}"
                violations.append(v)
        viol_mech.update(r.get('viol_mech', {}))
        known.update(r['known'])
        for k, w in r['known_what'].items():
            known_what.setdefault(k, w)
        for reason in r['inconclusive']:
            if reason not in inconclusive:
                inconclusive.append(reason)

    agg = {
        'evaluations': evaluations, 'classes': classes, 'counters': counters,
        'samples': samples, 'violations': violations, 'known': known,
        'inconclusive': inconclusive, 'tier': tier, 'seed': seed,
    }
    if hasattr(mod, 'finalize') and not args.replay:
        mod.finalize(agg)

    # ---- required observations (inconclusive if missing) ----------------------
    if not args.replay:
        req = mod.required(tier) if hasattr(mod, 'required') else {}
        for label in req.get('classes', []):
            if classes.get(label, 0) == 0:
                inconclusive.append(f'required class never observed: {label}')
        for name, minimum in req.get('counters', {}).items():
            if counters.get(name, 0) < minimum:
                inconclusive.append(
                    f'counter {name}={counters.get(name, 0)} below minimum {minimum}')
        if evaluations < req.get('evaluations', 1):
            inconclusive.append(
                f"evaluations={evaluations} below minimum {req.get('evaluations', 1)}")

    wall = time.time() - t0

    # ---- report ---------------------------------------------------------------
    print(f'[{prop}] tier={tier} seed={seed} shards={len(specs)} '
          f'evaluations={evaluations} distinct_classes={len(classes)} wall={wall:.1f}s')
    for name in sorted(counters):
        print(f'[{prop}]   counter {name} = {counters[name]}')
    top = sorted(classes.items(), key=lambda kv: (-kv[1], kv[0]))
    for label, n in top[:40]:
        print(f'[{prop}]   class {label} : {n}')
    if len(top) > 40:
        print(f'[{prop}]   ... {len(top) - 40} more classes')
    for fid in sorted(known):
        print(f'KNOWN-FINDING: property={prop} {fid}: {known_what.get(fid, "")} '
              f'(observed {known[fid]}x)')

    replay_dir = VERIF / 'replay'
    rc = 0
    if violations:
        replay_dir.mkdir(exist_ok=True)
        for v in violations[:10]:
            blob = json.dumps(v, sort_keys=True, default=str)
            h = hashlib.sha1(blob.encode()).hexdigest()[:10]
            path = replay_dir / f'{prop}-{h}.json'
            path.write_text(json.dumps(
                {'property': prop, 'tier': tier, 'seed': seed, **v}, indent=1,
                default=str))
            print(f'[{prop}] violation mechanism: {v["mechanism"]} '
                  f'(x{viol_mech.get(v["mechanism"], 1)})')
            det = json.dumps(v['detail'], default=str)
            print(f'[{prop}]   detail: {det[:1500]}')
            print(f'VIOLATION property={prop} replay={path}')
        rc = 1
    elif inconclusive:
        for reason in inconclusive[:20]:
            print(f'INCONCLUSIVE property={prop} reason={reason}')
        rc = 2
    else:
        print(f'[{prop}] HELD on everything observed')

    # ---- evidence -------------------------------------------------------------
    if not args.no_evidence and not args.replay:
        ev = {
            'property_id': prop,
            'tier': tier,
            'seed': seed,
            'level': mod.LEVEL,
            'coverage': {
                'evaluations': int(evaluations),
                'distinct_nontrivial': int(len(classes)),
                'rule': mod.RULE,
                'samples': samples or ['(no samples recorded)'],
                'classes_observed': dict(sorted(classes.items())),
                'counters': dict(sorted(counters.items())),
                'shards': len(specs),
                'known_findings_observed': dict(known),
                'inconclusive_reasons': inconclusive,
                'verdict': ['held', 'violated', 'inconclusive'][rc],
            },
            'assumptions': list(getattr(mod, 'ASSUMPTIONS', [])),
            'wall_s': round(wall, 2),
            'violations': len(violations),
        }
        if getattr(mod, 'EXHAUSTIVE', False):
            ev['coverage']['exhaustive'] = True
        extra = getattr(mod, 'evidence_extra', None)
        if extra:
            ev['coverage'].update(extra(agg))
        (VERIF / 'evidence').mkdir(exist_ok=True)
        (VERIF / 'evidence' / f'{prop}.json').write_text(json.dumps(ev, indent=1,
                                                                      default=str))
    return rc


if __name__ == '__main__':
    sys.exit(main())
