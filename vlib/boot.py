"""Process bootstrap shared by the driver and every shard.

* puts /verif and /verif/.deps on sys.path (installing icontract offline into
  the git-ignored .deps if it is not there yet),
* stubs the uninstalled ``shapely`` package (only ``grid_polygon`` needs it),
* pins the environment the monitors assume (no AEIC_PATH, hash seed).
"""

from __future__ import annotations

import os
import subprocess
import sys
import types
from pathlib import Path

VERIF = Path(__file__).resolve().parent.parent
REPO = Path(os.environ.get('VERIF_REPO', '/repo'))
DEPS = VERIF / '.deps'
PY = '/venv/bin/python'
REPO_TEST_DATA = REPO / 'tests' / 'data'
REPO_PKG_DATA = REPO / 'src' / 'AEIC' / 'data'


def ensure_deps() -> None:
    """icontract lives in .deps (git-ignored): install from the wheelhouse."""
    if str(DEPS) not in sys.path:
        sys.path.insert(0, str(DEPS))
    try:
        import icontract  # noqa: F401

        return
    except ImportError:
        pass
    subprocess.run(
        [
            PY,
            '-m',
            'pip',
            'install',
            '-q',
            '--no-index',
            '--find-links',
            '/opt/veriftools/wheels',
            '--target',
            str(DEPS),
            'icontract',
        ],
        check=True,
        stdout=subprocess.DEVNULL,
    )
    import importlib

    importlib.invalidate_caches()
    import icontract  # noqa: F401


def stub_shapely() -> None:
    if 'shapely' in sys.modules:
        return
    try:
        import shapely  # noqa: F401

        return
    except ImportError:
        pass
    sh = types.ModuleType('shapely')
    geo = types.ModuleType('shapely.geometry')

    class Polygon:  # pragma: no cover - never used by the monitored paths
        def __init__(self, *a, **k):
            raise RuntimeError('shapely is not installed (harness stub)')

    geo.Polygon = Polygon
    sh.geometry = geo
    sys.modules['shapely'] = sh
    sys.modules['shapely.geometry'] = geo


def boot() -> None:
    os.environ.pop('AEIC_PATH', None)
    os.environ.setdefault('AEIC_VERIF', '1')
    if str(VERIF) not in sys.path:
        sys.path.insert(0, str(VERIF))
    ensure_deps()
    stub_shapely()
    # The monitored code must come from the working tree of /repo.
    src = str(REPO / 'src')
    if REPO != Path('/repo') and src not in sys.path:
        sys.path.insert(0, src)
