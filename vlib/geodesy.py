"""Independent WGS-84 geodesy (Vincenty 1975), used as the oracle for great
circles.  Pure Python, no pyproj."""

from __future__ import annotations

import math

A = 6378137.0
F = 1 / 298.257223563
B = A * (1 - F)


def inverse(lat1, lon1, lat2, lon2, max_iter=200):
    """-> (distance m, initial azimuth deg, final azimuth deg, iterations) or None if
    the iteration does not converge (near-antipodal points)."""
    if lat1 == lat2 and (lon1 - lon2) % 360 == 0:
        return 0.0, 0.0, 0.0, 0
    U1 = math.atan((1 - F) * math.tan(math.radians(lat1)))
    U2 = math.atan((1 - F) * math.tan(math.radians(lat2)))
    L = math.radians(lon2 - lon1)
    L = (L + math.pi) % (2 * math.pi) - math.pi
    sU1, cU1, sU2, cU2 = math.sin(U1), math.cos(U1), math.sin(U2), math.cos(U2)
    lam = L
    for it in range(1, max_iter + 1):
        sl, cl = math.sin(lam), math.cos(lam)
        ss = math.hypot(cU2 * sl, cU1 * sU2 - sU1 * cU2 * cl)
        if ss == 0:
            return 0.0, 0.0, 0.0, it
        cs = sU1 * sU2 + cU1 * cU2 * cl
        sig = math.atan2(ss, cs)
        sa = cU1 * cU2 * sl / ss
        c2a = 1 - sa * sa
        c2sm = cs - 2 * sU1 * sU2 / c2a if c2a != 0 else 0.0
        C = F / 16 * c2a * (4 + F * (4 - 3 * c2a))
        lam_new = L + (1 - C) * F * sa * (
            sig + C * ss * (c2sm + C * cs * (-1 + 2 * c2sm * c2sm)))
        if abs(lam_new - lam) < 1e-13:
            lam = lam_new
            break
        lam = lam_new
        if abs(lam) > math.pi:
            return None
    else:
        return None
    u2 = c2a * (A * A - B * B) / (B * B)
    AA = 1 + u2 / 16384 * (4096 + u2 * (-768 + u2 * (320 - 175 * u2)))
    BB = u2 / 1024 * (256 + u2 * (-128 + u2 * (74 - 47 * u2)))
    ds = BB * ss * (c2sm + BB / 4 * (cs * (-1 + 2 * c2sm * c2sm)
                                     - BB / 6 * c2sm * (-3 + 4 * ss * ss)
                                     * (-3 + 4 * c2sm * c2sm)))
    s = B * AA * (sig - ds)
    sl, cl = math.sin(lam), math.cos(lam)
    a1 = math.degrees(math.atan2(cU2 * sl, cU1 * sU2 - sU1 * cU2 * cl)) % 360
    a2 = math.degrees(math.atan2(cU1 * sl, -sU1 * cU2 + cU1 * sU2 * cl)) % 360
    return s, a1, a2, it


def direct(lat1, lon1, az1, s):
    """-> (lat2, lon2 in [-180,180), final azimuth deg)"""
    a1 = math.radians(az1)
    sa1, ca1 = math.sin(a1), math.cos(a1)
    tU1 = (1 - F) * math.tan(math.radians(lat1))
    cU1 = 1 / math.sqrt(1 + tU1 * tU1)
    sU1 = tU1 * cU1
    sig1 = math.atan2(tU1, ca1)
    sa = cU1 * sa1
    c2a = 1 - sa * sa
    u2 = c2a * (A * A - B * B) / (B * B)
    AA = 1 + u2 / 16384 * (4096 + u2 * (-768 + u2 * (320 - 175 * u2)))
    BB = u2 / 1024 * (256 + u2 * (-128 + u2 * (74 - 47 * u2)))
    sig = s / (B * AA)
    for _ in range(500):
        c2sm = math.cos(2 * sig1 + sig)
        ss, cs = math.sin(sig), math.cos(sig)
        ds = BB * ss * (c2sm + BB / 4 * (cs * (-1 + 2 * c2sm * c2sm)
                                         - BB / 6 * c2sm * (-3 + 4 * ss * ss)
                                         * (-3 + 4 * c2sm * c2sm)))
        sig_new = s / (B * AA) + ds
        if abs(sig_new - sig) < 1e-14:
            sig = sig_new
            break
        sig = sig_new
    c2sm = math.cos(2 * sig1 + sig)
    ss, cs = math.sin(sig), math.cos(sig)
    tmp = sU1 * ss - cU1 * cs * ca1
    lat2 = math.atan2(sU1 * cs + cU1 * ss * ca1, (1 - F) * math.hypot(sa, tmp))
    lam = math.atan2(ss * sa1, cU1 * cs - sU1 * ss * ca1)
    C = F / 16 * c2a * (4 + F * (4 - 3 * c2a))
    L = lam - (1 - C) * F * sa * (sig + C * ss * (c2sm + C * cs * (-1 + 2 * c2sm * c2sm)))
    lon2 = (math.radians(lon1) + L + 3 * math.pi) % (2 * math.pi) - math.pi
    a2 = math.degrees(math.atan2(sa, -tmp)) % 360
    return math.degrees(lat2), math.degrees(lon2), a2


def chord_m(lat1, lon1, lat2, lon2):
    """Straight-line (ECEF chord) distance in metres between two surface points:
    a robust way to say 'these two positions are the same within x metres'."""
    def ecef(lat, lon):
        la, lo = math.radians(lat), math.radians(lon)
        e2 = F * (2 - F)
        N = A / math.sqrt(1 - e2 * math.sin(la) ** 2)
        return (N * math.cos(la) * math.cos(lo), N * math.cos(la) * math.sin(lo),
                N * (1 - e2) * math.sin(la))
    p, q = ecef(lat1, lon1), ecef(lat2, lon2)
    return math.dist(p, q)
