"""Shared workload and oracles for C04 (conservation) and C05 (placement) of
trajectory gridding.

Every generated path is gridded by the real ``Gridder.grid_trajectory`` with a
state variable that carries the *segment index*, so each returned piece names
the segment it belongs to.  The oracle samples each segment's straight map line
(unwrapped longitude for the antimeridian segment) at M points, bins the
samples with the grid's own half-open convention and weights them with local
WGS-84 geodesic length (pyproj called with explicit keywords).
"""

from __future__ import annotations

import math
import random

import numpy as np
from pyproj import Geod

_G = Geod(ellps='WGS84')
PI = math.pi


def geod_len(lat1, lon1, lat2, lon2):
    """vectorised geodesic length, radians in, metres out"""
    return _G.inv(lons1=np.asarray(lon1, float), lats1=np.asarray(lat1, float),
                  lons2=np.asarray(lon2, float), lats2=np.asarray(lat2, float),
                  radians=True)[2]


def cell_index(grid, v):
    """the grid's own convention: v in (g[k], g[k+1]]"""
    return np.searchsorted(grid, v, side='left') - 1


# ---------------------------------------------------------------------------
# generators


def gen_grid(rng):
    """-> (lat lines, lon lines, alt lines|None, time lines|None, label) in radians;
    arrays are lower cell edges; longitudes start exactly at -pi (global)."""
    res = rng.choice([0.25, 0.5, 1.0, 2.0, 2.5, 5.0, 10.0])
    regular = rng.random() < 0.7
    if regular:
        lat = np.deg2rad(np.arange(-90.0, 90.0, res))
        lon = np.deg2rad(np.arange(-180.0, 180.0, res))
    else:
        def irregular(lo, hi):
            xs = [lo]
            while xs[-1] < hi - 1e-9:
                xs.append(min(hi, xs[-1] + res * rng.uniform(0.3, 1.9)))
            return np.array(xs[:-1])

        def mirrored(lo, hi):
            # non-uniform but symmetric about the middle (e.g. wide polar bands): the first
            # and the last cell have the same width
            mid = 0.5 * (lo + hi)
            w_out = res * rng.uniform(0.8, 1.9)          # the two outermost cells of each side
            half = [mid]
            while half[-1] < hi - 2 * w_out - res * 0.3:
                half.append(min(hi - 2 * w_out, half[-1] + res * rng.uniform(0.3, 1.9)))
            if half[-1] < hi - 2 * w_out - 1e-9:
                half.append(hi - 2 * w_out)
            half += [hi - w_out, hi]
            right = half[1:]
            left = [2 * mid - x for x in reversed(right)]
            return np.array(left + [mid] + right[:-1])
        if rng.random() < 0.35:
            lat = np.deg2rad(mirrored(-90.0, 90.0))
            lon = np.deg2rad(mirrored(-180.0, 180.0))
        else:
            lat = np.deg2rad(irregular(-90.0, 90.0))
            lon = np.deg2rad(irregular(-180.0, 180.0))
    lon[0] = -PI
    alt = np.array(sorted({0.0} | {rng.uniform(0, 15000) for _ in range(rng.randint(2, 12))})) \
        if rng.random() < 0.6 else None
    tim = np.cumsum(np.array([0.0] + [rng.uniform(60, 7200) for _ in range(rng.randint(2, 20))])) \
        if rng.random() < 0.6 else None
    bucket = 'fine' if res <= 0.5 else ('medium' if res <= 2.5 else 'coarse')
    return lat, lon, alt, tim, {'res_deg': res, 'regular': regular, 'bucket': bucket}


KINDS = ['random-walk', 'single-cell', 'long-crossing', 'on-grid-lines', 'meridian-run',
         'parallel-run', 'west-south', 'antimeridian', 'repeated-points', 'corners',
         'micro-segments', 'over-a-pole']


def gen_path(rng, kind, lat_g, lon_g):
    """-> lats, lons (radians, numpy)"""
    lat_lo, lat_hi = lat_g[1], lat_g[-1]
    lon_lo, lon_hi = lon_g[1], lon_g[-1]

    def inside(la, lo):
        return (min(max(la, lat_lo + 1e-6), lat_hi + 0.5 * (lat_g[-1] - lat_g[-2]),
                    PI / 2 - 1e-4),
                min(max(lo, lon_lo + 1e-6), lon_hi + 0.5 * (lon_g[-1] - lon_g[-2])))
    n = rng.randint(2, 12)
    la0 = math.radians(rng.uniform(-70, 70))
    lo0 = math.radians(rng.uniform(-150, 150))
    lats, lons = [la0], [lo0]
    step = math.radians(rng.choice([0.05, 0.3, 1.5, 6.0]))
    if kind == 'random-walk':
        for _ in range(n - 1):
            lats.append(lats[-1] + rng.uniform(-step, step))
            lons.append(lons[-1] + rng.uniform(-step, step))
    elif kind == 'single-cell':
        i = rng.randrange(1, len(lat_g) - 1)
        j = rng.randrange(1, len(lon_g) - 1)
        lats = [rng.uniform(lat_g[i], lat_g[i + 1]) * (1 - 1e-9) + 1e-9 * lat_g[i + 1]
                for _ in range(n)]
        lons = [rng.uniform(lon_g[j], lon_g[j + 1]) * (1 - 1e-9) + 1e-9 * lon_g[j + 1]
                for _ in range(n)]
        lats = [min(max(x, np.nextafter(lat_g[i], 9)), lat_g[i + 1]) for x in lats]
        lons = [min(max(x, np.nextafter(lon_g[j], 9)), lon_g[j + 1]) for x in lons]
    elif kind == 'long-crossing':
        for _ in range(rng.randint(1, 3)):
            lats.append(math.radians(rng.uniform(-75, 75)))
            lons.append(math.radians(rng.uniform(-170, 170)))
    elif kind == 'on-grid-lines':
        for _ in range(n - 1):
            lats.append(lats[-1] + rng.uniform(-step, step))
            lons.append(lons[-1] + rng.uniform(-step, step))
        for q in range(len(lats)):
            r = rng.random()
            la, lo = inside(lats[q], lons[q])
            if r < 0.4:
                lats[q] = float(lat_g[max(1, cell_index(lat_g, la))])
            elif r < 0.8:
                lons[q] = float(lon_g[max(1, cell_index(lon_g, lo))])
    elif kind == 'corners':
        for _ in range(n - 1):
            lats.append(lats[-1] + rng.uniform(-step, step))
            lons.append(lons[-1] + rng.uniform(-step, step))
        for q in range(len(lats)):
            if rng.random() < 0.6:
                la, lo = inside(lats[q], lons[q])
                lats[q] = float(lat_g[max(1, cell_index(lat_g, la))])
                lons[q] = float(lon_g[max(1, cell_index(lon_g, lo))])
    elif kind == 'meridian-run':
        for _ in range(n - 1):
            lats.append(lats[-1] + rng.uniform(-step, step) * 2)
            lons.append(lo0)
    elif kind == 'parallel-run':
        for _ in range(n - 1):
            lats.append(la0)
            lons.append(lons[-1] + rng.uniform(-step, step) * 2)
    elif kind == 'west-south':
        for _ in range(n - 1):
            lats.append(lats[-1] - rng.uniform(0, step))
            lons.append(lons[-1] - rng.uniform(0, step))
    elif kind == 'micro-segments':
        # near-duplicate point pairs (3e-9 .. 1e-3 m apart: position noise of a parked
        # aircraft, the same waypoint converted twice) that straddle a grid line
        for _ in range(n - 1):
            lats.append(lats[-1] + rng.uniform(-step, step))
            lons.append(lons[-1] + rng.uniform(-step, step))
        out_la, out_lo = [], []
        for la, lo in zip(lats, lons):
            la, lo = inside(la, lo)
            out_la.append(la)
            out_lo.append(min(lo, PI - 1e-6))
            if rng.random() < 0.6:
                dth = 10 ** rng.uniform(-8.5, -3) / 6.371e6
                f = rng.uniform(0.1, 0.9)
                if rng.random() < 0.5:
                    g = float(lat_g[max(1, cell_index(lat_g, la))])
                    out_la[-1] = g - f * dth
                    out_la.append(g + (1 - f) * dth)
                    out_lo.append(out_lo[-1])
                else:
                    g = float(lon_g[max(1, cell_index(lon_g, out_lo[-1]))])
                    out_lo[-1] = g - f * dth
                    out_lo.append(g + (1 - f) * dth)
                    out_la.append(out_la[-1])
        return np.array(out_la), np.array(out_lo)
    elif kind == 'over-a-pole':
        # a track over the pole: it arrives along one meridian, stands exactly ON the pole
        # (where every longitude is the same point: the turn is a zero-length segment that
        # may span many longitude cells) and leaves along another meridian
        # (the north pole: the south pole lies ON the lowest grid line, i.e. on the edge of
        # the grid, which the quantifier "within the grid" leaves out)
        sgn = 1.0
        lo_a = math.radians(rng.uniform(-170, 170))
        lo_b = math.radians(rng.uniform(-170, 170))
        if abs(lo_b - lo_a) > PI - 0.05:          # keep the turn the short way round, no wrap
            lo_b = lo_a + math.copysign(PI - 0.1, lo_b - lo_a) * 0.5
        lats, lons = [], []
        d = [step * rng.uniform(0.2, 1.0) for _ in range(rng.randint(1, 3))]
        for q in range(len(d), 0, -1):
            lats.append(sgn * (PI / 2 - sum(d[:q])))
            lons.append(lo_a)
        lats.append(sgn * PI / 2)
        lons.append(lo_a)
        for _ in range(rng.randint(0, 2)):
            lats.append(sgn * PI / 2)             # turns on the spot
            lons.append(lo_a + (lo_b - lo_a) * rng.random())
        lats.append(sgn * PI / 2)
        lons.append(lo_b)
        d = [step * rng.uniform(0.2, 1.0) for _ in range(rng.randint(0, 3))]
        for q in range(1, len(d) + 1):
            lats.append(sgn * (PI / 2 - sum(d[:q])))
            lons.append(lo_b)
        return np.array(lats), np.array(lons)
    elif kind == 'repeated-points':
        for _ in range(n - 1):
            if rng.random() < 0.5:
                lats.append(lats[-1])
                lons.append(lons[-1])
            else:
                lats.append(lats[-1] + rng.uniform(-step, step))
                lons.append(lons[-1] + rng.uniform(-step, step))
    elif kind == 'antimeridian':
        east = rng.random() < 0.5
        pre = rng.randint(0, 3)
        post = rng.randint(0, 3)
        s = math.radians(rng.choice([0.2, 1.0, 4.0]))
        lo = math.radians(179.0 - rng.uniform(0, 8)) if east else math.radians(-179.0 + rng.uniform(0, 8))
        la = math.radians(rng.uniform(-60, 60))
        lats, lons = [], []
        for _ in range(pre + 1):
            lats.append(la)
            lons.append(lo)
            la += rng.uniform(-s, s)
            lo += (rng.uniform(0, s) if east else -rng.uniform(0, s)) * 0.3
        lons = [min(x, PI - 1e-4) if east else max(x, -PI + 1e-4) for x in lons]
        # the crossing segment
        la2 = lats[-1] + rng.uniform(-s, s) * 2
        d = rng.uniform(0.02, 1.0) * s + 1e-3
        lo2 = (-PI + d) if east else (PI - d)
        special = rng.random()
        if special < 0.15:
            # end points mirrored about the equator and the 180th meridian: the path meets
            # the antimeridian at latitude exactly 0
            x_ = abs(lats[-1]) if abs(lats[-1]) > 1e-3 else 0.05
            y_ = PI - abs(lons[-1])
            lats[-1] = -x_ if rng.random() < 0.5 else x_
            la2 = -lats[-1]
            lo2 = (-PI + y_) if east else (PI - y_)
        elif special < 0.3:
            # the last point before the crossing lies exactly ON the 180th meridian (and may
            # be repeated: a stop there)
            lons[-1] = PI if east else -PI
            for _ in range(rng.randint(0, 2)):
                lats.append(lats[-1])
                lons.append(lons[-1])
        lats.append(la2)
        lons.append(lo2)
        for _ in range(post):
            lats.append(lats[-1] + rng.uniform(-s, s))
            nxt = lons[-1] + (rng.uniform(0, s) if east else -rng.uniform(0, s))
            lons.append(nxt)
        return np.array(lats), np.array(lons)
    out_la, out_lo = [], []
    for la, lo in zip(lats, lons):
        la, lo = inside(la, lo)
        out_la.append(la)
        out_lo.append(min(lo, PI - 1e-6))
    return np.array(out_la), np.array(out_lo)


def crossing_noise(lat_a, lon_a, lat_b, lon_b):
    """How well the point where a segment meets a grid line is determined by the
    floating-point coordinates at all, as a fraction of the segment: one ulp of the
    coordinate across the line moves the crossing by ulp / |delta| of the segment.  Only
    segments nearly parallel to a grid line (|delta| of a few hundred ulps) get a
    noticeable value; at 1 (longitudes or latitudes of the two ends a few ulps apart, on
    either side of the line) the place of the crossing - and so the split of the segment
    between the two cells - is not determined at all."""
    eps = 0.0
    dlat, dlon = abs(lat_b - lat_a), abs(lon_b - lon_a)
    if dlat > 0:
        eps += 8 * float(np.spacing(max(abs(lat_a), abs(lat_b)))) / dlat
    if dlon > 0:
        eps += 8 * float(np.spacing(max(abs(lon_a), abs(lon_b)))) / dlon
    return min(1.0, eps)


# ---------------------------------------------------------------------------
# oracle


def unwrap_segment(lon1, lon2):
    """-> (lon1, lon2u) with lon2 unwrapped so that the short way round is taken"""
    d = lon2 - lon1
    if d > PI:
        return lon1, lon2 - 2 * PI
    if d < -PI:
        return lon1, lon2 + 2 * PI
    return lon1, lon2


def sample_segment(lat1, lon1, lat2, lon2, lat_g, lon_g, M):
    """Brute force: M equal-parameter pieces of the straight map line; returns
    (ordered list of cells (i, j), dict cell -> share of length, total geodesic
    length of the sampled polyline, geodesic length of the segment)."""
    lon1u, lon2u = unwrap_segment(lon1, lon2)
    t = np.linspace(0.0, 1.0, M + 1)
    la = lat1 + (lat2 - lat1) * t
    lo = lon1u + (lon2u - lon1u) * t
    def wrap(x):
        # only touch values outside [-pi, pi]: wrapping costs an ulp, and points lying
        # exactly on a grid line must stay exactly there
        return np.where(np.abs(x) > PI, ((x + PI) % (2 * PI)) - PI, x)
    low = wrap(lo)
    w = geod_len(la[:-1], low[:-1], la[1:], low[1:])
    mid_la = 0.5 * (la[:-1] + la[1:])
    mid_lo = 0.5 * (lo[:-1] + lo[1:])
    mid_low = wrap(mid_lo)
    # a sample exactly at -pi belongs, by the half-open convention, to the last cell
    i = cell_index(lat_g, mid_la)
    j = cell_index(lon_g, mid_low)
    j = np.where(j < 0, len(lon_g) - 1, j)
    total = float(w.sum())
    shares: dict = {}
    order: list = []
    if total == 0.0:
        c = (int(cell_index(lat_g, lat1)), int(cell_index(lon_g, lon1)))
        return [c], {c: 1.0}, 0.0, 0.0
    runs = []                         # (cell, first piece index, last piece index)
    for q, (ii, jj, ww) in enumerate(zip(i.tolist(), j.tolist(), w.tolist())):
        c = (ii, jj)
        if not order or order[-1] != c:
            order.append(c)
            runs.append([c, q, q])
        else:
            runs[-1][2] = q
        shares[c] = shares.get(c, 0.0) + ww / total
    # the same shares measured the way the code measures them: one great-circle chord per
    # contiguous stay in a cell (entry point -> exit point)
    chords = {}
    for c, a, b in runs:
        chords[c] = chords.get(c, 0.0) + float(geod_len(la[a], low[a], la[b + 1], low[b + 1]))
    tot_ch = sum(chords.values())
    sample_segment.chord_shares = {c: v / tot_ch for c, v in chords.items()} if tot_ch > 0 \
        else dict(shares)
    seg = float(geod_len(lat1, lon1, lat2, lon2))
    # length of the straight map line itself (limit M -> infinity): Richardson
    # extrapolation from the M- and 2M-piece inscribed polylines
    t2 = np.linspace(0.0, 1.0, 2 * M + 1)
    la2 = lat1 + (lat2 - lat1) * t2
    lo2 = wrap(lon1u + (lon2u - lon1u) * t2)
    total2 = float(geod_len(la2[:-1], lo2[:-1], la2[1:], lo2[1:]).sum())
    curve = total2 + max(0.0, total2 - total) / 3.0
    return order, shares, curve, seg


OLDER_ROUTE = 'cells_touched_by_trajectory_with_state_and_integrated_variables'


def run_gridder(Gridder, lat_g, lon_g, alt_g, tim_g, lats, lons, alts, times, state, integ,
                reuse_rng=None, route='grid_trajectory'):
    if reuse_rng is None:
        g = Gridder(grid_latitudes=lat_g, grid_longitudes=lon_g, grid_altitudes=alt_g,
                    grid_times=tim_g)
    else:
        # one Gridder object switched to another grid: built for (and used on) a different
        # grid first, then its grid fields are assigned
        d_lat, d_lon, d_alt, d_tim, _ = gen_grid(reuse_rng)
        g = Gridder(grid_latitudes=d_lat, grid_longitudes=d_lon, grid_altitudes=d_alt,
                    grid_times=d_tim)
        try:
            g.grid_trajectory(np.deg2rad(np.array([10.0, 12.5])), np.deg2rad(np.array([20.0, 23.0])),
                              None if d_alt is None else np.array([1000.0, 2000.0]),
                              None if d_tim is None else np.array([10.0, 20.0]),
                              (np.arange(2.0),), (np.array([1.0]),))
        except Exception:  # noqa: BLE001  (the decoy run is not what is being judged)
            pass
        g.grid_latitudes, g.grid_longitudes = lat_g, lon_g
        g.grid_altitudes, g.grid_times = alt_g, tim_g
    seg_idx = np.arange(len(lats), dtype=float)
    out = getattr(g, route)(lats, lons, alts, times, (seg_idx,) + tuple(state), tuple(integ))
    return out


# ---------------------------------------------------------------------------
# one generated case: run the real gridder, collect pieces per segment


class Case:
    pass


def make_case(rng, k, M):
    import AEIC.gridding.grid as grid_mod

    c = Case()
    c.kind = KINDS[k % len(KINDS)] if rng.random() < 0.85 else rng.choice(KINDS)
    c.lat_g, c.lon_g, c.alt_g, c.tim_g, c.grid = gen_grid(rng)
    c.lats, c.lons = gen_path(rng, c.kind, c.lat_g, c.lon_g)
    n = len(c.lats)
    c.alts = None
    c.times = None
    if c.alt_g is not None:
        c.alts = np.array([rng.uniform(1.0, 16000.0) for _ in range(n)])
        if rng.random() < 0.3:
            c.alts[rng.randrange(n)] = float(rng.choice(c.alt_g[1:]))      # on a level line
    if c.tim_g is not None:
        c.times = np.sort(np.array([rng.uniform(1.0, float(c.tim_g[-1]) + 3000) for _ in range(n)]))
    c.n_state = rng.randint(0, 3)
    c.n_integ = rng.randint(1, 3)
    c.state = [np.array([rng.uniform(-5, 5) for _ in range(n)]) for _ in range(c.n_state)]
    c.state_kinds = ['float'] * c.n_state
    for q in range(c.n_state):
        r_ = rng.random()
        if r_ < 0.2:
            # an optional per-point quantity that is unset (NaN) at some points
            for i_ in rng.sample(range(n), rng.randint(1, max(1, n // 2))):
                c.state[q][i_] = float('nan')
            c.state_kinds[q] = 'float-with-nan'
        elif r_ < 0.4:
            # 64-bit integers beyond 2**53 (nanosecond time stamps, identifiers)
            c.state[q] = np.array([rng.randint(2 ** 60, 2 ** 62) + rng.randint(0, 255)
                                   for _ in range(n)], dtype=np.int64)
            c.state_kinds[q] = 'int64-beyond-2**53'
        elif r_ < 0.5:
            c.state[q] = np.array([rng.randint(0, 200) for _ in range(n)], dtype=np.uint8)
            c.state_kinds[q] = 'uint8'
    # integrated variables: one value per SEGMENT (n-1)
    c.integ = [np.array([rng.choice([0.0, rng.uniform(0.1, 1000.0), rng.uniform(0.1, 1000.0)])
                         for _ in range(n - 1)]) for _ in range(c.n_integ)]
    if rng.random() < 0.3:
        # integer-typed per-segment quantities (counts) are quantities too
        q = rng.randrange(c.n_integ)
        c.integ[q] = np.array([rng.choice([0, 1, 2, 3, 7, 20]) for _ in range(n - 1)],
                              dtype=np.int64)
        c.int_integ = True
    else:
        c.int_integ = False
    c.M = M
    c.desc = {'kind': c.kind, 'grid': c.grid, 'axes': ('alt' if c.alt_g is not None else '')
              + ('+time' if c.tim_g is not None else ''),
              'lats_deg': np.rad2deg(c.lats).round(9).tolist(),
              'lons_deg': np.rad2deg(c.lons).round(9).tolist(),
              'n_state': c.n_state, 'n_integ': c.n_integ}
    cross = crosses(c.lons)
    c.cross_seg = int(np.flatnonzero(cross)[0]) if np.any(cross) else None
    c.n_cross = int(np.count_nonzero(cross))
    c.error = None
    c.len_ok = True
    c.input_mutated, c.regrid_differs = [], False
    before = [np.array(x, copy=True) for x in [c.lats, c.lons] + c.state + c.integ]
    c.reused_gridder = rng.random() < 0.2
    # the gridder's two public entry points (grid_trajectory is documented as the refactored
    # version of the older one; same arguments, same result tuple)
    c.route = OLDER_ROUTE if random.Random(f'route-{k}-{n}-{c.kind}').random() < 0.25 \
        else 'grid_trajectory'
    c.desc['entry_point'] = c.route
    try:
        c.out = run_gridder(grid_mod.Gridder, c.lat_g, c.lon_g, c.alt_g, c.tim_g, c.lats,
                            c.lons, c.alts, c.times, c.state, c.integ,
                            reuse_rng=random.Random(rng.getrandbits(32)) if c.reused_gridder
                            else None, route=c.route)
    except Exception as e:  # noqa: BLE001
        c.error = f'{type(e).__name__}: {str(e)[:200]}'
        return c
    if c.out is None or c.out[0] is None:
        # the older entry point answers "not implemented" (all None, with a warning) for tracks
        # that cross the antimeridian more than once; those cases are not judged anyway
        if c.n_cross <= 1:
            c.error = 'the gridder returned None instead of cells'
        c.pieces = {}
        return c
    after = [c.lats, c.lons] + c.state + c.integ
    c.input_mutated = [i for i, (a, b) in enumerate(zip(before, after))
                       if a.dtype != np.asarray(b).dtype
                       or not np.array_equal(a, b, equal_nan=a.dtype.kind == 'f')]
    # the same arrays gridded again must give the same answer (a trajectory is a value)
    c.regrid_differs = False
    if rng.random() < 0.3:
        out2 = run_gridder(grid_mod.Gridder, c.lat_g, c.lon_g, c.alt_g, c.tim_g, c.lats,
                           c.lons, c.alts, c.times, c.state, c.integ, route=c.route)
        c.regrid_differs = any(len(a) != len(b) or not np.allclose(a, b, rtol=1e-12, atol=0)
                               for a, b in zip(c.out[5], out2[5]))
    cl, co, ca, ct, sv, iv = c.out
    c.len_ok = (len(cl) == len(co) and (ca is None or len(ca) == len(cl))
                and (ct is None or len(ct) == len(cl))
                and all(len(x) == len(cl) for x in sv) and all(len(x) == len(cl) for x in iv))
    c.lengths = {'lat': len(cl), 'lon': len(co), 'alt': None if ca is None else len(ca),
                 'time': None if ct is None else len(ct), 'state': [len(x) for x in sv],
                 'integ': [len(x) for x in iv]}
    if not c.len_ok:
        return c
    seg_of_piece = sv[0]
    c.pieces = {}          # seg -> list of dict
    for p in range(len(cl)):
        s = int(round(float(seg_of_piece[p])))
        i = int(np.argmin(np.abs(c.lat_g - cl[p])))
        j = int(np.argmin(np.abs(c.lon_g - co[p])))
        c.pieces.setdefault(s, []).append({
            'cell': (i, j), 'alt': None if ca is None else float(ca[p]),
            'time': None if ct is None else float(ct[p]),
            'state': [x[p] for x in sv[1:]], 'integ': [float(x[p]) for x in iv]})
    return c


def crosses(lons):
    d = np.diff(lons)
    return np.abs(d) > PI


def huge_track(rng, npts):
    """One trajectory with more points than 2**16 (a 1 Hz track of a long flight): vectorised
    checks only.  -> (list of (mechanism, detail), description)"""
    import AEIC.gridding.grid as grid_mod

    res = rng.choice([0.5, 1.0, 2.0])
    lat_g = np.deg2rad(np.arange(-90.0, 90.0, res))
    lon_g = np.deg2rad(np.arange(-180.0, 180.0, res))
    lon_g[0] = -PI
    step = math.radians(35.0 / npts)
    nprng = np.random.default_rng(rng.getrandbits(32))
    lats = math.radians(rng.uniform(-30, 30)) + np.cumsum(nprng.uniform(-0.2, 1.0, npts)) * step
    lons = math.radians(rng.uniform(-150, 60)) + np.cumsum(nprng.uniform(0.2, 1.0, npts)) * step
    gap = rng.choice([2 ** 16 - 1, 2 ** 16, 2 ** 16 + 1])     # a data gap right at the boundary
    if gap < npts - 1:
        lats[gap + 1:] += math.radians(0.8)
        lons[gap + 1:] += math.radians(1.3)
    integ = nprng.uniform(0.5, 2.0, npts - 1)
    desc = {'points': npts, 'grid_res_deg': res, 'gap_after_point': gap}
    probs = []
    try:
        cl, co, ca, ct, sv, iv = run_gridder(grid_mod.Gridder, lat_g, lon_g, None, None, lats,
                                             lons, None, None, [], [integ])
    except Exception as e:  # noqa: BLE001
        return [('gridding a path inside the grid raised',
                 {'error': f'{type(e).__name__}: {str(e)[:200]}', **desc})], desc
    if not (len(cl) == len(co) == len(sv[0]) == len(iv[0])):
        return [('output arrays have different lengths',
                 {'lengths': [len(cl), len(co), len(sv[0]), len(iv[0])], **desc})], desc
    seg = np.rint(np.asarray(sv[0])).astype(np.int64)
    vals = np.asarray(iv[0], float)
    sums = np.bincount(seg, weights=vals, minlength=npts - 1)[:npts - 1]
    count = np.bincount(seg, minlength=npts - 1)[:npts - 1]
    missing = np.flatnonzero(count == 0)
    if len(missing):
        probs.append(('a segment produced no piece at all',
                      {'segments': missing[:5].tolist(), 'n_missing': int(len(missing)), **desc}))
    # segments are at most a few km long (straight line == geodesic to 1e-7), except the one
    # bridging the data gap (about 170 km: excess up to a few 1e-5 at higher latitudes)
    bad = np.flatnonzero((count > 0) & ((sums < integ * (1 - 1e-9)) | (sums > integ * (1 + 1e-4))))
    if len(bad):
        b = int(bad[0])
        probs.append(('pieces of a segment add up to less than the segment\'s value'
                      if sums[b] < integ[b] else
                      'pieces of a segment add up to more than the allowed excess',
                      {'segment': b, 'value': float(integ[b]), 'sum_of_pieces': float(sums[b]),
                       'n_bad': int(len(bad)), **desc}))
    tot_in, tot_out = float(integ.sum()), float(vals.sum())
    if not (tot_in * (1 - 1e-9) <= tot_out <= tot_in * (1 + 1e-4)):
        probs.append(('gridded total differs from the trajectory total',
                      {'total_in': tot_in, 'total_out': tot_out, **desc}))
    # first piece of every segment lies in the cell of the segment's start point, the last
    # one in the cell of its end point (points are generated off the grid lines)
    first = np.full(npts - 1, -1)
    last = np.full(npts - 1, -1)
    idx = np.arange(len(seg))
    last[seg] = idx                         # later pieces overwrite: path order
    first[seg[::-1]] = idx[::-1]
    ok = count > 0
    ci = np.searchsorted(lat_g, lats, side='right') - 1
    cj = np.searchsorted(lon_g, lons, side='right') - 1
    pi_ = np.abs(lat_g[:, None] - np.asarray(cl)[None, :]).argmin(axis=0) if len(cl) < 1 else \
        np.searchsorted(lat_g, np.asarray(cl) + 1e-12, side='right') - 1
    pj_ = np.searchsorted(lon_g, np.asarray(co) + 1e-12, side='right') - 1
    s_ok = np.flatnonzero(ok)
    wrong = s_ok[(pi_[first[s_ok]] != ci[s_ok]) | (pj_[first[s_ok]] != cj[s_ok])
                 | (pi_[last[s_ok]] != ci[s_ok + 1]) | (pj_[last[s_ok]] != cj[s_ok + 1])]
    if len(wrong):
        w = int(wrong[0])
        probs.append(('a piece is attributed to a cell that does not contain that part of the '
                      'segment', {'segment': w, 'n_wrong': int(len(wrong)),
                                  'start_cell': [int(ci[w]), int(cj[w])],
                                  'first_piece_cell': [int(pi_[first[w]]), int(pj_[first[w]])],
                                  'end_cell': [int(ci[w + 1]), int(cj[w + 1])],
                                  'last_piece_cell': [int(pi_[last[w]]), int(pj_[last[w]])],
                                  **desc}))
    return probs, desc
