"""History driver: random operation sequences on a real TrajectoryStore checked
online, after every operation, against a list/dict reference model (shape S2).

Every call is made at the public API boundary; the monitor only *peeks* at
private state (cache membership, index_stale) to classify what it observed.
"""

from __future__ import annotations

import os
import random
from pathlib import Path

import numpy as np

from AEIC.trajectories import TrajectoryStore
from AEIC.trajectories.store import TrajectoryCache
from vlib import trajgen

EVICTIONS = {'n': 0}
_orig_popitem = TrajectoryCache.popitem


def _counting_popitem(self):
    r = _orig_popitem(self)
    EVICTIONS['n'] += 1
    return r


TrajectoryCache.popitem = _counting_popitem


class _UserError(Exception):
    pass


class Mismatch(Exception):
    def __init__(self, mechanism: str, detail):
        super().__init__(mechanism)
        self.mechanism = mechanism
        self.detail = detail


class StoreHistory:
    """One history.  ``model`` is the list of snapshots of successful adds;
    ``ids`` maps flight id -> model position (identified stores only)."""

    def __init__(self, rng: random.Random, workdir: Path, rec, *, identified: bool,
                 npoints_range=(2, 9), cache_items: int | None = None,
                 in_memory: bool = False, uid_base: int = 0):
        self.rng = rng
        self.np_rng = np.random.default_rng(rng.getrandbits(32))
        self.dir = workdir
        self.rec = rec
        self.identified = identified
        self.npoints_range = npoints_range
        self.fixed_np = rng.randint(*npoints_range)
        self.cache_items = cache_items
        self.model: list[dict] = []
        self.ids: dict[int, int] = {}
        self.store: TrajectoryStore | None = None
        self.session = 'none'          # create_file | create_mem | append | read | none
        self.session_start_len = 0
        self.path = workdir / f'h{rng.getrandbits(40):x}.nc'
        self.file_exists = False
        self.in_memory = in_memory
        self.uid = uid_base
        self.log: list = []
        self.used_ids: set[int] = set()

    # -- helpers --------------------------------------------------------------
    def cache_mb(self) -> float:
        if self.cache_items is None:
            return 64
        nb = trajgen.traj_nbytes(self.fixed_np)
        return (self.cache_items * nb + nb // 2) / (1024 * 1024)

    def new_traj(self):
        self.uid += 1
        fid = None
        if self.identified:
            while True:
                kind = self.rng.random()
                if kind < 0.7:
                    fid = self.rng.randint(-50, 400)
                elif kind < 0.85:
                    fid = self.rng.randint(2**31, 2**40)
                else:
                    fid = -self.rng.randint(2**31, 2**40)
                if fid not in self.used_ids:
                    break
            self.used_ids.add(fid)
        npts = self.fixed_np if self.cache_items is not None else \
            self.rng.randint(*self.npoints_range)
        return trajgen.make_base_traj(self.np_rng, npts, self.uid, flight_id=fid)

    def _fail(self, mechanism: str, **detail):
        detail['session'] = self.session
        detail['session_start_len'] = self.session_start_len
        detail['model_len'] = len(self.model)
        detail['cache_items'] = self.cache_items
        detail['log_tail'] = self.log[-25:]
        raise Mismatch(mechanism, detail)

    # -- sessions -------------------------------------------------------------
    def open_session(self, kind: str):
        if self.store is not None:
            raise RuntimeError('harness: session already open')
        if kind == 'create_mem':
            self.store = TrajectoryStore.create(cache_size_mb=self.cache_mb())
        elif kind == 'create_file':
            self.store = TrajectoryStore.create(base_file=self.path,
                                                cache_size_mb=self.cache_mb())
        elif kind == 'append':
            self.store = TrajectoryStore.append(base_file=self.path,
                                                cache_size_mb=self.cache_mb())
        elif kind == 'read':
            self.store = TrajectoryStore.open(base_file=self.path,
                                              cache_size_mb=self.cache_mb())
        self.session = kind
        self.session_start_len = len(self.model)
        self.log.append(('open', kind))
        self.rec.count(f'session_{kind}')

    def close(self, how: str | None = None):
        """how: 'close' | 'with' (block ends normally) | 'with-exception' (the block is left
        by an exception of the user's code; the store must be closed just the same)"""
        if self.store is not None:
            if how is None:
                how = self.rng.choice(['close', 'close', 'with', 'with-exception'])
            self.log.append(('close', how))
            try:
                if how == 'close':
                    self.store.close()
                elif how == 'with':
                    with self.store:
                        pass
                else:
                    try:
                        with self.store:
                            raise _UserError('error in the user\'s block')
                    except _UserError:
                        pass
                self.rec.cls(f'close-via:{how}')
            except Exception as e:  # noqa: BLE001
                self.store = None
                self._fail('close() raised', error=f'{type(e).__name__}: {e}', how=how)
            self.store = None
            self.file_exists = self.path.exists()
            self.session = 'none'

    @property
    def writable(self) -> bool:
        return self.session in ('create_file', 'create_mem', 'append')

    # -- operations -----------------------------------------------------------
    def op_add(self):
        t = self.new_traj()
        snap = trajgen.snapshot(t)
        expected = len(self.model)
        self.log.append(('add', trajgen.fingerprint(snap), snap.get('flight_id')))
        ev0 = EVICTIONS['n']
        try:
            idx = self.store.add(t)
        except TrajectoryCache.EvictionOccurred:
            if self.session != 'create_mem':
                self._fail('EvictionOccurred raised by a file-backed store')
            self.rec.count('mem_refusals')
            self.rec.cls('add:in-memory store refused (would evict)')
            if self.identified and snap.get('flight_id') is not None:
                self.used_ids.discard(snap['flight_id'])
            self.check_len()
            self.check_all_reads(sample=3)
            return
        except Exception as e:  # noqa: BLE001
            self._fail('valid add raised', error=f'{type(e).__name__}: {e}')
        if self.session == 'create_mem' and EVICTIONS['n'] != ev0:
            self._fail('in-memory store evicted instead of refusing the addition')
        self.rec.ev()
        if idx != expected:
            self._fail('add returned wrong index', returned=idx, expected=expected)
        self.model.append(snap)
        if self.identified:
            self.ids[snap['flight_id']] = expected
        self.rec.cls(f'add:{self.session}')
        self.check_len()

    def op_add_oversize(self):
        """A trajectory larger than the whole cache: whatever the store answers (HEAD refuses
        with ValueError), a refusal must leave everything as it was and an acceptance must
        behave like any addition."""
        if self.cache_items is None:
            return
        self.uid += 1
        fid = None
        if self.identified:
            fid = max(self.used_ids | {1000}) + 1
        t = trajgen.make_base_traj(self.np_rng, self.fixed_np * (self.cache_items + 2) * 2,
                                   self.uid, flight_id=fid)
        snap = trajgen.snapshot(t)
        expected = len(self.model)
        self.log.append(('add-oversize', trajgen.fingerprint(snap), fid))
        try:
            idx = self.store.add(t)
        except Exception as e:  # noqa: BLE001
            self.rec.ev()
            self.rec.cls(f'add:larger-than-cache:refused:{type(e).__name__}')
            self.rec.count('oversize_refusals')
            self.check_len()
            self.check_all_reads(sample=3)
            if self.identified:
                self.op_lookup(True)
            return
        self.rec.ev()
        if idx != expected:
            self._fail('add returned wrong index', returned=idx, expected=expected)
        self.model.append(snap)
        if self.identified:
            self.used_ids.add(fid)
            self.ids[fid] = expected
        self.rec.cls('add:larger-than-cache:accepted')
        self.check_len()

    def op_save_rejected(self):
        """save() of an in-memory store onto a path that already exists is refused; the store
        stays an in-memory store (still refusing additions that would evict)."""
        occupied = self.dir / f'occupied{self.rng.getrandbits(30):x}.nc'
        occupied.write_bytes(b'already here')
        self.log.append(('save-onto-existing-file',))
        try:
            self.store.save(occupied)
        except Exception as e:  # noqa: BLE001
            self.rec.cls(f'save:onto-existing-file:refused:{type(e).__name__}')
            self.check_len()
            self.check_all_reads(sample=3)
            occupied.unlink(missing_ok=True)
            return
        self._fail('save() onto an existing file was accepted')

    def check_len(self):
        n = len(self.store)
        self.rec.ev()
        if n != len(self.model):
            self._fail('len(store) differs from number of successful additions',
                       store_len=n)

    def op_get(self, i: int):
        cached = i in self.store._trajectories
        ev0 = EVICTIONS['n']
        self.log.append(('get', i))
        try:
            t = self.store[i]
        except IndexError as e:
            if 0 <= i < len(self.model):
                self._fail('valid index reported out of range', index=i, error=str(e),
                           cached=cached)
            self.rec.ev()
            self.rec.cls(f'get:beyond-end:{self.session}')
            return
        except Exception as e:  # noqa: BLE001
            self._fail('store[i] raised', index=i, error=f'{type(e).__name__}: {e}')
        self.rec.ev()
        if not (0 <= i < len(self.model)):
            self._fail('index beyond the end returned a trajectory', index=i,
                       got=trajgen.fingerprint(t))
        exp = self.model[i]
        if trajgen.fingerprint(t) != trajgen.fingerprint(exp):
            self._fail('store[i] returned a different trajectory', index=i,
                       got=trajgen.fingerprint(t), expected=trajgen.fingerprint(exp),
                       cached=cached)
        diffs = trajgen.compare(exp, t)
        if diffs:
            self._fail('store[i] returned the right trajectory with altered contents',
                       index=i, diffs=diffs[:6])
        rel = 'old' if i < self.session_start_len else 'new'
        how = 'cached' if cached else 'reloaded'
        self.rec.cls(f'get:{self.session}:{how}:{rel}')
        if not cached and self.session == 'append' and rel == 'old':
            self.rec.count('append_old_reload')
        if not cached and self.session == 'append' and rel == 'new':
            self.rec.count('append_new_reload')
        if EVICTIONS['n'] != ev0:
            self.rec.count('reads_causing_eviction')

    def check_all_reads(self, sample: int | None = None):
        idxs = list(range(len(self.model)))
        if sample is not None and len(idxs) > sample:
            idxs = self.rng.sample(idxs, sample)
        for i in idxs:
            self.op_get(i)

    def op_iter(self):
        self.log.append(('iter',))
        try:
            got = list(self.store)
        except Exception as e:  # noqa: BLE001
            self._fail('iteration raised', error=f'{type(e).__name__}: {e}')
        self.rec.ev()
        fg = [trajgen.fingerprint(t) for t in got]
        fe = [trajgen.fingerprint(s) for s in self.model]
        if fg != fe:
            self._fail('iteration order/content differs from insertion order',
                       got=fg, expected=fe)
        self.rec.cls(f'iter:{self.session}')

    def op_iter_overlapping(self):
        """Two iterations over the same store object at once."""
        self.log.append(('iter-overlapping',))
        fe = [trajgen.fingerprint(s) for s in self.model]
        try:
            pairs = [(trajgen.fingerprint(a), trajgen.fingerprint(b))
                     for a, b in zip(self.store, self.store)]
            nested = []
            for a in self.store:
                inner = [trajgen.fingerprint(b) for b in self.store]
                nested.append((trajgen.fingerprint(a), inner))
                if len(nested) >= 3:
                    break
        except Exception as e:  # noqa: BLE001
            self._fail('iteration raised', error=f'{type(e).__name__}: {e}')
        self.rec.ev()
        if pairs != list(zip(fe, fe)):
            self._fail('two simultaneous iterations over one store disturb each other',
                       got=pairs[:6], expected=list(zip(fe, fe))[:6])
        for i, (a, inner) in enumerate(nested):
            if a != fe[i] or inner != fe:
                self._fail('two simultaneous iterations over one store disturb each other',
                           outer=a, expected_outer=fe[i], inner=inner[:6])
        self.rec.cls(f'iter-overlapping:{self.session}')

    def op_sync(self):
        self.log.append(('sync',))
        try:
            self.store.sync()
        except Exception as e:  # noqa: BLE001
            self._fail('sync() raised', error=f'{type(e).__name__}: {e}')
        self.rec.cls(f'sync:{self.session}')

    def op_save(self):
        self.log.append(('save',))
        try:
            self.store.save(self.path)
        except Exception as e:  # noqa: BLE001
            self._fail('save() raised', error=f'{type(e).__name__}: {e}')
        self.session = 'create_file'
        self.rec.cls('save:in-memory->file')

    def op_lookup(self, known: bool):
        """C08: get_flight against the dict model."""
        if known and self.ids:
            fid = self.rng.choice(list(self.ids))
        else:
            while True:
                fid = self.rng.randint(-60, 420)
                if fid not in self.ids:
                    break
        stale = bool(self.store.index_stale)
        self.log.append(('lookup', fid, 'stale' if stale else 'fresh'))
        try:
            t = self.store.get_flight(fid)
        except Exception as e:  # noqa: BLE001
            self._fail('get_flight raised', flight_id=fid,
                       error=f'{type(e).__name__}: {e}', stale=stale)
        self.rec.ev()
        if fid in self.ids:
            exp = self.model[self.ids[fid]]
            if t is None:
                self._fail('known flight id not found', flight_id=fid, stale=stale)
            if trajgen.fingerprint(t) != trajgen.fingerprint(exp) or \
                    getattr(t, 'flight_id', None) != fid:
                self._fail('get_flight returned a different trajectory', flight_id=fid,
                           got=trajgen.fingerprint(t),
                           got_id=getattr(t, 'flight_id', None),
                           expected=trajgen.fingerprint(exp), stale=stale)
            diffs = trajgen.compare(exp, t)
            if diffs:
                self._fail('get_flight returned altered contents', flight_id=fid,
                           diffs=diffs[:6])
            self.rec.cls(f'lookup:hit:{self.session}:{"stale" if stale else "fresh"}')
            if stale:
                self.rec.count('lookups_while_stale')
            if self.session == 'append':
                self.rec.count('lookups_in_append')
        else:
            if t is not None:
                self._fail('unknown flight id returned a trajectory', flight_id=fid,
                           got=trajgen.fingerprint(t))
            self.rec.cls(f'lookup:miss:{self.session}:{"stale" if stale else "fresh"}')

    def cleanup(self):
        if self.store is not None:
            try:
                self.store.close()
            except Exception:  # noqa: BLE001
                pass
            self.store = None
        try:
            if self.path.exists():
                os.unlink(self.path)
        except OSError:
            pass
