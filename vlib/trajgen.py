"""Generators of real ``Trajectory`` objects and an independent deep comparison.

The comparison deliberately does not use ``Container.__eq__``: it walks the
registered field sets, reads every value through the public attribute
interface and compares bit patterns / key sets itself.
"""

from __future__ import annotations

import copy
from typing import Any

import numpy as np

from AEIC.performance.types import ThrustMode, ThrustModeValues
from AEIC.storage import Dimension, FieldSet
from AEIC.trajectories.trajectory import Trajectory
from AEIC.types import Species, SpeciesValues

POINT_FIELDS = [
    'fuel_flow', 'aircraft_mass', 'fuel_mass', 'ground_distance', 'altitude',
    'flight_level', 'rate_of_climb', 'flight_time', 'latitude', 'longitude',
    'azimuth', 'heading', 'true_airspeed', 'ground_speed',
]


def make_base_traj(rng: np.random.Generator, npoints: int, uid: int,
                   flight_id: int | None = None, name: bool = True,
                   fieldsets: list[str] | None = None) -> Trajectory:
    """A fully populated base trajectory whose every array is unique to
    ``uid`` (so a read identifies the write it observed)."""
    t = Trajectory(npoints, name=(f'u{uid}' if name else None), fieldsets=fieldsets)
    base = float(uid) * 1000.0
    for j, f in enumerate(POINT_FIELDS):
        setattr(t, f, base + j + rng.random(npoints))
    t.flight_time = np.cumsum(rng.random(npoints)) + base
    t.starting_mass = base + 0.5
    t.total_fuel_mass = base + 0.25
    n1 = npoints // 3
    t.n_climb = n1
    t.n_cruise = n1
    t.n_descent = npoints - 2 * n1
    if flight_id is not None:
        t.flight_id = flight_id
    return t


# ---------------------------------------------------------------------------
# snapshot / comparison


def field_defs(traj) -> dict[str, Any]:
    out = {}
    for fs_name in sorted(traj._fieldsets):
        fs = FieldSet.from_registry(fs_name)
        for n, md in fs.fields.items():
            out[n] = md
    return out


def _copy_val(v: Any) -> Any:
    if isinstance(v, np.ndarray):
        return np.array(v, copy=True)
    if isinstance(v, SpeciesValues):
        return ('SV', {sp: _copy_val(x) for sp, x in v.items()})
    if isinstance(v, ThrustModeValues):
        return ('TM', {m: v[m] for m in ThrustMode}, set(v.keys()))
    return copy.deepcopy(v)


def snapshot(traj) -> dict[str, Any]:
    """Deep copy of every field value as seen through the public interface."""
    snap = {'__len__': len(traj), '__fieldsets__': set(traj._fieldsets)}
    for name in field_defs(traj):
        snap[name] = _copy_val(getattr(traj, name))
    return snap


def _scalar_kind(x: Any) -> str:
    if x is None:
        return 'none'
    if isinstance(x, bool | np.bool_):
        return 'bool'
    if isinstance(x, int | np.integer):
        return 'int'
    if isinstance(x, float | np.floating):
        return 'float'
    if isinstance(x, str):
        return 'str'
    return type(x).__name__


def _cmp_leaf(path: str, exp: Any, got: Any, dtype, diffs: list[str]) -> None:
    if isinstance(exp, np.ndarray):
        if not isinstance(got, np.ndarray):
            diffs.append(f'{path}: expected ndarray, got {type(got).__name__} {got!r:.80}')
            return
        if exp.shape != got.shape:
            diffs.append(f'{path}: shape {got.shape} != {exp.shape}')
            return
        if dtype is not str and got.dtype != np.dtype(dtype):
            diffs.append(f'{path}: dtype {got.dtype} != declared {np.dtype(dtype)}')
            return
        if exp.dtype != got.dtype or exp.tobytes() != got.tobytes():
            bad = np.flatnonzero(~((exp == got) | ((exp != exp) & (got != got))))
            diffs.append(f'{path}: array differs at {bad[:5].tolist()} '
                         f'exp={exp[bad[:3]].tolist()} got={got[bad[:3]].tolist()}')
        return
    if isinstance(got, np.ndarray):
        diffs.append(f'{path}: expected {exp!r:.60}, got ndarray shape {got.shape}')
        return
    ke, kg = _scalar_kind(exp), _scalar_kind(got)
    if ke == 'none' and kg == 'str' and got == '' and dtype is str:
        # pinned by tests/test_storage.py::test_read_nulls; C03 lists it as a finding
        diffs.append(f'{UNSET_STR_MARK}{path}: unset optional string read back as empty string')
        return
    if ke != kg:
        diffs.append(f'{path}: kind {kg} ({got!r:.60}) != {ke} ({exp!r:.60})')
        return
    if ke == 'float':
        if not (np.float64(exp).tobytes() == np.float64(got).tobytes()):
            diffs.append(f'{path}: {got!r} != {exp!r}')
    elif exp != got:
        diffs.append(f'{path}: {got!r:.80} != {exp!r:.80}')


UNSET_STR_MARK = '@unset-str@ '


def compare(snap: dict[str, Any], traj, label: str = '',
            strict_unset_str: bool = False) -> list[str]:
    """Differences between a snapshot and a trajectory read back (empty = equal).

    An unset optional *string* that reads back as '' is only reported when
    ``strict_unset_str`` (C03 owns that finding; order/identity checks ignore it)."""
    diffs = _compare(snap, traj, label)
    if not strict_unset_str:
        diffs = [d for d in diffs if not d.startswith(UNSET_STR_MARK)]
    return diffs


def _compare(snap: dict[str, Any], traj, label: str = '') -> list[str]:
    diffs: list[str] = []
    if traj is None:
        return [f'{label}got None instead of a trajectory']
    if len(traj) != snap['__len__']:
        diffs.append(f'{label}len {len(traj)} != {snap["__len__"]}')
    if set(traj._fieldsets) != snap['__fieldsets__']:
        diffs.append(f'{label}fieldsets {sorted(traj._fieldsets)} != '
                     f'{sorted(snap["__fieldsets__"])}')
        return diffs
    for name, md in field_defs(traj).items():
        exp = snap[name]
        try:
            got = getattr(traj, name)
        except Exception as e:  # noqa: BLE001
            diffs.append(f'{label}{name}: reading raised {type(e).__name__}: {e}')
            continue
        path = f'{label}{name}'
        if isinstance(exp, tuple) and exp and exp[0] == 'SV':
            if not isinstance(got, SpeciesValues):
                diffs.append(f'{path}: expected SpeciesValues got {type(got).__name__}')
                continue
            ek, gk = set(exp[1].keys()), set(got.keys())
            if ek != gk:
                lost = sorted(s.name for s in ek - gk)
                inv = sorted(s.name for s in gk - ek)
                diffs.append(f'{path}: species lost={lost} invented={inv}')
            for sp in sorted(ek & gk):
                e, g = exp[1][sp], got[sp]
                if isinstance(e, tuple) and e and e[0] == 'TM':
                    if not isinstance(g, ThrustModeValues):
                        diffs.append(f'{path}[{sp.name}]: expected ThrustModeValues')
                        continue
                    for m in ThrustMode:
                        _cmp_leaf(f'{path}[{sp.name}][{m.name}]', e[1][m], g[m],
                                  md.field_type, diffs)
                else:
                    _cmp_leaf(f'{path}[{sp.name}]', e, g, md.field_type, diffs)
        elif isinstance(exp, tuple) and exp and exp[0] == 'TM':
            if not isinstance(got, ThrustModeValues):
                diffs.append(f'{path}: expected ThrustModeValues got {type(got).__name__}')
                continue
            for m in ThrustMode:
                _cmp_leaf(f'{path}[{m.name}]', exp[1][m], got[m], md.field_type, diffs)
        else:
            _cmp_leaf(path, exp, got, md.field_type, diffs)
    return diffs


def fingerprint(snap_or_traj) -> str:
    """Short identity of a trajectory: its unique name or first fuel-flow value."""
    if isinstance(snap_or_traj, dict):
        n = snap_or_traj.get('name')
        ff = snap_or_traj.get('fuel_flow')
    else:
        n = getattr(snap_or_traj, 'name', None)
        ff = getattr(snap_or_traj, 'fuel_flow', None)
    if n is not None:
        return str(n)
    return f'ff0={float(ff[0]):.3f}' if ff is not None and len(ff) else '?'


def traj_nbytes(npoints: int) -> int:
    return Trajectory(npoints).nbytes
