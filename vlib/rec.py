"""Recorder used inside a shard: what the monitors observed."""

from __future__ import annotations

import json
import math
from collections import Counter
from pathlib import Path
from typing import Any

import numpy as np

_KF_PATH = Path(__file__).resolve().parent.parent / 'known_findings.json'


def load_known_findings() -> dict[str, dict]:
    """id -> entry for entries with status 'known' (fixed entries suppress
    nothing and are therefore not returned)."""
    try:
        data = json.loads(_KF_PATH.read_text(encoding='utf-8'))
    except FileNotFoundError:
        return {}
    return {
        e['id']: e for e in data.get('findings', []) if e.get('status') == 'known'
    }


def jsonable(o: Any, depth: int = 0) -> Any:
    """Best-effort conversion of witnesses to JSON."""
    if depth > 6:
        return repr(o)[:200]
    if o is None or isinstance(o, bool | int | str):
        return o
    if isinstance(o, float):
        if math.isnan(o) or math.isinf(o):
            return repr(o)
        return o
    if isinstance(o, np.generic):
        return jsonable(o.item(), depth + 1)
    if isinstance(o, np.ndarray):
        if o.size > 40:
            return {
                'ndarray': list(o.shape),
                'head': [jsonable(x, depth + 1) for x in o.ravel()[:12].tolist()],
            }
        return [jsonable(x, depth + 1) for x in o.tolist()]
    if isinstance(o, dict):
        return {str(k): jsonable(v, depth + 1) for k, v in o.items()}
    if isinstance(o, list | tuple | set | frozenset):
        return [jsonable(x, depth + 1) for x in list(o)[:60]]
    return repr(o)[:300]


class Rec:
    MAX_SAMPLES = 4
    MAX_VIOL = 12

    def __init__(self, prop: str):
        self.prop = prop
        self.evaluations = 0
        self.classes: Counter[str] = Counter()
        self.counters: Counter[str] = Counter()
        self.samples: list[Any] = []
        self.violations: list[dict] = []
        self.viol_mech: Counter[str] = Counter()
        self.known: Counter[str] = Counter()
        self.known_what: dict[str, str] = {}
        self.inconclusive: list[str] = []
        self._kf = load_known_findings()

    # -- observation bookkeeping -------------------------------------------
    def ev(self, n: int = 1) -> None:
        self.evaluations += n

    def cls(self, *labels: str) -> None:
        for label in labels:
            self.classes[label] += 1

    def count(self, name: str, n: int = 1) -> None:
        self.counters[name] += n

    def sample(self, obj: Any) -> None:
        if len(self.samples) < self.MAX_SAMPLES:
            self.samples.append(jsonable(obj))

    # -- verdicts ------------------------------------------------------------
    def violation(self, mechanism: str, detail: Any, case: Any) -> None:
        """A violation not attributable to a listed known finding."""
        self.viol_mech[mechanism] += 1
        if self.viol_mech[mechanism] == 1 and len(self.violations) < self.MAX_VIOL:
            self.violations.append(
                {
                    'mechanism': mechanism,
                    'detail': jsonable(detail),
                    'case': jsonable(case),
                }
            )

    def finding(self, finding_id: str, what: str, detail: Any, case: Any) -> None:
        """A violation whose *mechanism* was recognised by an executable defect
        model.  It is a KNOWN-FINDING only while known_findings.json lists that
        id with status "known"; otherwise it is an ordinary violation."""
        if finding_id in self._kf:
            self.known[finding_id] += 1
            self.known_what.setdefault(finding_id, what)
        else:
            self.violation(f'{finding_id}: {what}', detail, case)

    def inconc(self, reason: str) -> None:
        if reason not in self.inconclusive:
            self.inconclusive.append(reason)

    def result(self) -> dict:
        return {
            'evaluations': self.evaluations,
            'classes': dict(self.classes),
            'counters': dict(self.counters),
            'samples': self.samples,
            'violations': self.violations,
            'viol_mech': dict(self.viol_mech),
            'known': dict(self.known),
            'known_what': self.known_what,
            'inconclusive': self.inconclusive,
        }
