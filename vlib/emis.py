"""Generators (performance-model data, fuels, trajectories, configurations) and
the independent inventory oracle shared by C01 and C11."""

from __future__ import annotations

import itertools
import math
import random

import numpy as np

OPTIONS = {
    'climb_descent_mode': ['trajectory', 'lto'],
    'co2_enabled': [True, False],
    'h2o_enabled': [True, False],
    'sox_enabled': [True, False],
    'nox_method': ['bffm2', 'p3t3', 'none'],
    'hc_method': ['bffm2', 'p3t3', 'none'],
    'co_method': ['bffm2', 'p3t3', 'none'],
    'pmvol_method': ['fuel_flow', 'foa3', 'none'],
    'pmnvol_method': ['meem', 'scope11', 'foa3', 'none'],
    'apu_enabled': [True, False],
    'gse_enabled': [True, False],
    'lifecycle_enabled': [True, False],
}
OPTION_KEYS = list(OPTIONS)


def option_product():
    for combo in itertools.product(*(OPTIONS[k] for k in OPTION_KEYS)):
        yield dict(zip(OPTION_KEYS, combo))


N_PRODUCT = math.prod(len(v) for v in OPTIONS.values())     # 41 472

TIM = {'idle': 26.0 * 60, 'approach': 4.0 * 60, 'climb': 2.2 * 60, 'takeoff': 0.7 * 60}
MODES = ('idle', 'approach', 'climb', 'takeoff')


class DummyPM:
    """What compute_emissions reads from a performance model."""

    def __init__(self, lto, edb, apu, aircraft_class, n_eng):
        self.lto, self.edb, self.apu = lto, edb, apu
        self.aircraft_class, self.number_of_engines = aircraft_class, n_eng


class DummyPMNoEDB(DummyPM):
    """A model whose LTO engine identifier has no entry in the engine data base: like the
    real model's lazy ``edb`` property, reading it raises ValueError."""

    def __init__(self, lto, edb, apu, aircraft_class, n_eng):
        self.lto, self.apu = lto, apu
        self.aircraft_class, self.number_of_engines = aircraft_class, n_eng

    @property
    def edb(self):
        raise ValueError("UID H1 not found in sheet 'Gaseous Emissions and Smoke'")


NO_EDB_MSG = "not found in sheet"


def gen_pm(rng, hostile=True, no_edb=False):
    from AEIC.performance.apu import APU
    from AEIC.performance.edb import EDBEntry
    from AEIC.performance.types import LTOPerformance, ThrustMode, ThrustModeValues
    from AEIC.types import AircraftClass

    TM = dict(zip(MODES, ThrustMode))

    ord_rng = random.Random(rng.getrandbits(32))

    def tmv(d):
        modes = list(MODES)
        if hostile and ord_rng.random() < 0.5:      # mappings filled in another key order
            ord_rng.shuffle(modes)
        return ThrustModeValues({TM[m]: float(d[m]) for m in modes})
    flows = sorted(10 ** rng.uniform(-1.3, 0.5) for _ in range(4))
    for i in range(1, 4):
        if flows[i] < flows[i - 1] * 1.05:
            flows[i] = flows[i - 1] * (1.05 + rng.random())
    kind = 'monotone'
    if hostile and rng.random() < 0.2:
        i = rng.randrange(3)
        flows[i], flows[i + 1] = flows[i + 1], flows[i]
        kind = 'non-monotone'
    elif hostile and rng.random() < 0.1:
        i = rng.randrange(3)
        flows[i + 1] = flows[i]
        kind = 'equal'
    ff = dict(zip(MODES, flows))
    ei = {s: {m: 10 ** rng.uniform(-2, 1.6) for m in MODES} for s in ('nox', 'hc', 'co')}
    # keep the idle->approach log-log slope of HC/CO within +-12 (real engines: -1 .. -4):
    # steeper data extrapolate to overflow at very small fuel flows in any implementation
    import math as _m
    den = abs(_m.log10(ff['approach'] / ff['idle']))
    for sp in ('hc', 'co'):
        num = _m.log10(ei[sp]['approach'] / ei[sp]['idle'])
        if den > 0 and abs(num) > 12 * den:
            ei[sp]['approach'] = ei[sp]['idle'] * 10 ** (_m.copysign(12 * den, num))
    lto = LTOPerformance(source='h', ICAO_UID='H1', rated_thrust=120000.0,
                         thrust_pct=tmv({'idle': 7, 'approach': 30, 'climb': 85, 'takeoff': 100}),
                         fuel_flow=tmv(ff), EI_NOx=tmv(ei['nox']), EI_HC=tmv(ei['hc']),
                         EI_CO=tmv(ei['co']))
    nv = rng.choice(['given', 'missing', 'no-sn'])
    mass = {m: rng.uniform(0.5, 300) if nv == 'given' else -1.0 for m in MODES}
    num = {m: 10 ** rng.uniform(13, 16) if nv == 'given' else -1.0 for m in MODES}
    sn = {m: (-1.0 if nv == 'no-sn' else rng.uniform(0.5, 35)) for m in MODES}
    edb = EDBEntry(engine='h', uid=f'H{rng.getrandbits(40):x}',
                   engine_type=rng.choice(['TF', 'MTF']),
                   BP_Ratio=rng.uniform(0.3, 11), rated_thrust=120.0, fuel_flow=tmv(ff),
                   CO_EI_matrix=tmv(ei['co']), HC_EI_matrix=tmv(ei['hc']),
                   EI_NOx_matrix=tmv(ei['nox']), SN_matrix=tmv(sn), nvPM_mass_matrix=tmv(mass),
                   nvPM_num_matrix=tmv(num), PR=tmv({m: rng.uniform(15, 45) for m in MODES}),
                   EImass_max=rng.uniform(50, 400), EImass_max_thrust=-1.0,
                   EInum_max=10 ** rng.uniform(14, 16), EInum_max_thrust=-1.0)
    a = rng.random()
    if a < 0.2:
        apu, apu_kind = None, 'none'
    elif a < 0.35:
        apu, apu_kind = APU.unknown('mystery'), 'zero-fuel'
    else:
        apu = APU(name='h', defra='x', fuel_kg_per_s=rng.uniform(0.005, 0.08),
                  NOx_g_per_kg=rng.uniform(1, 12), CO_g_per_kg=rng.uniform(1, 40),
                  HC_g_per_kg=rng.uniform(0.05, 5), PM10_g_per_kg=rng.uniform(0.0, 0.3))
        apu_kind = 'normal'
    ac = rng.choice(list(AircraftClass))
    pm = (DummyPMNoEDB if no_edb else DummyPM)(lto, edb, apu, ac, rng.choice([1, 2, 2, 3, 4]))
    if no_edb:
        nv = 'no-engine-database-entry'
    pm.desc = {'flows': kind, 'nvpm_data': nv, 'apu': apu_kind, 'class': str(ac),
               'n_eng': pm.number_of_engines, 'fuel_flow': ff}
    pm.ff = ff
    return pm


def gen_fuel(rng):
    from AEIC.types import Fuel

    k = rng.random()
    if k < 0.4:
        return Fuel(name='Jet-A', energy_MJ_per_kg=43.2, EI_H2O=1233.3865, EI_CO2=3155.6,
                    non_volatile_carbon_fraction=0.95, lifecycle_CO2=89.0,
                    fuel_sulfur_content_nom=600.0, sulfate_yield_nom=0.02), 'jetA'
    if k < 0.55:
        return Fuel(name='SAF', energy_MJ_per_kg=44.1, EI_H2O=1356.72515, EI_CO2=3155.6,
                    non_volatile_carbon_fraction=0.95, fuel_sulfur_content_nom=0.0,
                    sulfate_yield_nom=0.0), 'SAF(no lifecycle data)'
    return Fuel(name='rnd', energy_MJ_per_kg=rng.uniform(40, 46), EI_H2O=rng.uniform(1100, 1400),
                EI_CO2=rng.uniform(2900, 3300), non_volatile_carbon_fraction=0.95,
                lifecycle_CO2=rng.uniform(10, 100), fuel_sulfur_content_nom=rng.uniform(0, 3000),
                sulfate_yield_nom=rng.random() * 0.2), 'random'


def gen_traj(rng, pm):
    """A real Trajectory with arbitrary phase split, zero-burn plateaus, stratospheric
    points, fuel flow 0..1.5 x take-off flow; top altitude >= 6 km (see ASSUMPTIONS)."""
    from AEIC.trajectories.trajectory import Trajectory
    from vlib.refs import isa

    n = rng.choice([2, 2, 3, 5, 10, 40, 120, 400]) if rng.random() < 0.5 else rng.randint(2, 120)
    split = rng.choice(['normal', 'normal', 'no-climb', 'no-descent', 'all-climb',
                        'all-descent', 'no-cruise', 'stale-counts'])
    if split == 'normal':
        nc = rng.randint(0, n // 2)
        nd = rng.randint(0, n - nc)
    elif split == 'no-climb':
        nc, nd = 0, rng.randint(0, n)
    elif split == 'no-descent':
        nc, nd = rng.randint(0, n), 0
    elif split == 'stale-counts':
        # a trajectory resampled onto a coarser time grid keeps the phase counts of the
        # original: climb and descent counts overlap (n_climb > n - n_descent)
        nc = rng.randint(n // 2 + 1, n)
        nd = rng.randint(n - nc + 1, n)
    elif split == 'all-climb':
        nc, nd = n, 0
    elif split == 'all-descent':
        nc, nd = 0, n
    else:
        nc = rng.randint(0, n)
        nd = n - nc
    ncr = max(0, n - nc - nd)
    t = Trajectory(n, name='h')
    top = rng.uniform(6000, 25000) if rng.random() < 0.25 else rng.uniform(6000, 12500)
    alt = np.empty(n)
    for i in range(n):
        if i < nc:
            alt[i] = 900 + (top - 900) * (i / max(1, nc))
        elif i < nc + ncr:
            alt[i] = top
        else:
            alt[i] = top - (top - 900) * ((i - nc - ncr + 1) / max(1, nd))
    alt = np.clip(alt + np.array([rng.uniform(-50, 50) for _ in range(n)]), 0.0, 25000.0)
    alt[rng.randrange(n)] = top           # the top is really reached
    to_flow = max(pm.ff.values())
    ff = np.array([rng.choice([0.0, rng.uniform(0, 1.5 * to_flow * pm.number_of_engines),
                               rng.uniform(0, 1.5 * to_flow * pm.number_of_engines)])
                   for _ in range(n)])
    burn = np.array([0.0] + [rng.choice([0.0, rng.uniform(0, 400.0), rng.uniform(0, 400.0)])
                             for _ in range(n - 1)])
    has_zero = bool(np.any(burn[1:] == 0.0))
    fuel0 = float(burn.sum()) + rng.uniform(0, 5000)
    fuel_mass = fuel0 - np.cumsum(burn)
    mach = np.array([rng.uniform(0.05, 0.95) for _ in range(n)])
    tas = np.array([mach[i] * math.sqrt(1.4 * 287.05287 * isa.temperature(float(alt[i])))
                    for i in range(n)])
    t.fuel_flow = ff
    t.fuel_mass = fuel_mass
    t.aircraft_mass = fuel_mass + 40000.0
    t.altitude = alt
    t.flight_level = alt / 30.48
    t.true_airspeed = tas
    t.ground_speed = tas
    t.rate_of_climb = np.zeros(n)
    t.flight_time = np.cumsum(np.full(n, 60.0))
    t.ground_distance = np.cumsum(tas * 60.0)
    t.latitude = np.linspace(10, 40, n)
    t.longitude = np.linspace(-100, -70, n)
    t.azimuth = np.full(n, 45.0)
    t.heading = np.full(n, 45.0)
    t.starting_mass = float(t.aircraft_mass[0])
    t.total_fuel_mass = float(fuel0)
    # optional phases (documented as legal: taxi, take-off, approach, idle are "normal" points
    # with their own counters); the first climb / last descent points are relabelled
    opt = {}
    if rng.random() < 0.3:
        if nc >= 2 and rng.random() < 0.7:
            k_ = rng.randint(1, min(3, nc - 1))
            opt['n_takeoff'] = k_
            nc -= k_
        if nd >= 2 and rng.random() < 0.5:
            k_ = rng.randint(1, min(3, nd - 1))
            opt['n_approach'] = k_
            nd -= k_
        for name_, v_ in opt.items():
            setattr(t, name_, v_)
    t.n_climb, t.n_cruise, t.n_descent = nc, ncr, nd
    desc = {'n': n, 'split': split, 'n_climb': nc, 'n_cruise': ncr, 'n_descent': nd,
            'optional_phases': opt,
            'zero_burn_segment': has_zero, 'stratospheric': bool(np.any(alt > 11000)),
            'top': float(alt.max())}
    return t, desc


# ---------------------------------------------------------------------------
# the oracle


def close(a, b, rel=1e-9, abs_=1e-9):
    return abs(a - b) <= rel * max(abs(a), abs(b)) + abs_


def check_inventory(em, pm, fuel, traj, cfg: dict):
    """Independent re-summation of the Emissions dataclass.  Returns a list of
    (mechanism, detail) problems (empty = balanced)."""
    from AEIC.performance.types import ThrustMode
    from AEIC.types import Species

    TMm = dict(zip(MODES, ThrustMode))
    probs = []
    lto_mode = cfg['climb_descent_mode'] == 'lto'
    n = len(traj)
    nc, nd = int(traj.n_climb), int(traj.n_descent)
    lo, hi = (nc, n - nd) if lto_mode else (0, n)
    fm = [float(x) for x in traj.fuel_mass]
    fb = [0.0] + [fm[i - 1] - fm[i] for i in range(1, n)]
    window_fuel = math.fsum(fb[lo:hi]) if hi > lo else 0.0

    def bad(mech, **d):
        probs.append((mech, d))

    # (7) finite and non-negative ------------------------------------------------------
    def scan(label, sv, kind):
        for sp, v in sv.items():
            vals = (np.asarray(v, float).ravel().tolist() if kind == 'arr' else
                    [float(v[m]) for m in ThrustMode] if kind == 'tm' else [float(v)])
            for x in vals:
                if not math.isfinite(x):
                    bad('inventory contains a non-finite amount', part=label, species=sp.name)
                    return
                if x < -1e-9:
                    bad('inventory contains a negative amount', part=label, species=sp.name,
                        value=x)
                    return
    scan('trajectory_emissions', em.trajectory_emissions, 'arr')
    scan('trajectory_indices', em.trajectory_indices, 'arr')
    scan('lto_emissions', em.lto_emissions, 'tm')
    scan('lto_indices', em.lto_indices, 'tm')
    scan('apu_emissions', em.apu_emissions, 'f')
    scan('gse_emissions', em.gse_emissions, 'f')
    scan('total_emissions', em.total_emissions, 'f')
    if probs:
        return probs
    # fuel burn per segment
    got_fb = [float(x) for x in em.fuel_burn_per_segment]
    if len(got_fb) != n or any(not close(g, w, 1e-12, 1e-9) for g, w in zip(got_fb, fb)):
        bad('fuel burn per segment differs from the fuel-mass differences')
    # (2) per-segment amount = EI x fuel burned, zero outside the window ---------------------
    if set(em.trajectory_emissions.keys()) != set(em.trajectory_indices.keys()):
        bad('trajectory emissions and indices carry different species')
    for sp in em.trajectory_indices.keys():
        idx = np.asarray(em.trajectory_indices[sp], float)
        amt = np.asarray(em.trajectory_emissions[sp], float)
        if len(idx) != n or len(amt) != n:
            bad('per-segment array has the wrong length', species=sp.name)
            continue
        for i in range(n):
            inside = lo <= i < hi
            if not inside:
                if idx[i] != 0.0 or amt[i] != 0.0:
                    bad('segment outside the accounting window carries emissions / an index',
                        species=sp.name, segment=i, window=[lo, hi], index=float(idx[i]),
                        amount=float(amt[i]))
                    break
            else:
                if not close(float(amt[i]), float(idx[i]) * fb[i], 4e-16 * 4, 1e-12):
                    bad('per-segment amount is not emission index x fuel burned',
                        species=sp.name, segment=i, amount=float(amt[i]), index=float(idx[i]),
                        fuel=fb[i])
                    break
    # (3) LTO: amount = index x time-in-mode x fuel flow; modes zeroed in trajectory mode ------
    lto_fuel = 0.0
    for m in MODES:
        active = lto_mode or m in ('idle', 'takeoff')
        f = TIM[m] * float(pm.lto.fuel_flow[TMm[m]]) if active else 0.0
        lto_fuel += f
        for sp in em.lto_indices.keys():
            idx = float(em.lto_indices[sp][TMm[m]])
            amt = float(em.lto_emissions[sp][TMm[m]]) if sp in em.lto_emissions else None
            if amt is None:
                bad('LTO index without an LTO amount', species=sp.name)
                continue
            if not active and (idx != 0.0 or amt != 0.0):
                bad('approach/climb LTO mode not zeroed in trajectory accounting mode',
                    species=sp.name, mode=m, index=idx, amount=amt)
            if not close(amt, idx * f, 1e-12, 1e-12):
                bad('LTO amount is not index x time-in-mode x fuel flow', species=sp.name,
                    mode=m, amount=amt, index=idx, fuel=f)
    # APU ----------------------------------------------------------------------------------------
    apu_on = bool(cfg['apu_enabled']) and pm.apu is not None
    apu_fuel = float(pm.apu.fuel_kg_per_s) * 900.0 if apu_on else 0.0
    if not apu_on and len(em.apu_emissions):
        bad('APU amounts present although the APU is disabled / absent')
    for sp in em.apu_emissions.keys():
        idx = float(em.apu_indices[sp]) if sp in em.apu_indices else None
        if idx is None or not close(float(em.apu_emissions[sp]), idx * apu_fuel, 1e-12, 1e-12):
            bad('APU amount is not index x 900 s x APU fuel flow', species=sp.name,
                amount=float(em.apu_emissions[sp]), index=idx, fuel=apu_fuel)
    # GSE fuel --------------------------------------------------------------------------------------
    gse_on = bool(cfg['gse_enabled'])
    nominal_co2 = {'wide': 58e3, 'narrow': 18e3, 'small': 10e3, 'freight': 58e3}[
        str(pm.aircraft_class).lower()]
    gse_fuel = nominal_co2 / float(fuel.EI_CO2) if gse_on else 0.0
    if not gse_on and len(em.gse_emissions):
        bad('GSE amounts present although GSE is disabled')
    # (4) total fuel burn -------------------------------------------------------------------------------
    exp_fuel = window_fuel + lto_fuel + apu_fuel + gse_fuel
    if not close(float(em.total_fuel_burn), exp_fuel, 1e-10, 1e-9):
        bad('total fuel burn is not the sum of the fuel burned by the components',
            reported=float(em.total_fuel_burn), expected=exp_fuel,
            parts={'window': window_fuel, 'lto': lto_fuel, 'apu': apu_fuel, 'gse': gse_fuel})
    # (1) totals = sum of parts (+ life-cycle CO2) ------------------------------------------------------------
    lifecycle = 0.0
    if cfg['co2_enabled'] and cfg['lifecycle_enabled']:
        lifecycle = float(fuel.lifecycle_CO2) * (fm[0] - fm[-1]) * float(fuel.energy_MJ_per_kg)
        if not close(float(em.lifecycle_co2), lifecycle, 1e-12, 1e-9):
            bad('life-cycle CO2 adjustment differs from fuel used x energy x life-cycle factor',
                reported=float(em.lifecycle_co2), expected=lifecycle)
    elif float(em.lifecycle_co2) != 0.0:
        bad('life-cycle adjustment reported although switched off')
    for sp in Species:
        parts = []
        if sp in em.trajectory_emissions:
            parts += [float(x) for x in np.asarray(em.trajectory_emissions[sp], float)]
        if sp in em.lto_emissions:
            parts += [float(em.lto_emissions[sp][TMm[m]]) for m in MODES]
        if sp in em.apu_emissions:
            parts.append(float(em.apu_emissions[sp]))
        if sp in em.gse_emissions:
            parts.append(float(em.gse_emissions[sp]))
        exp = math.fsum(parts) + (lifecycle if sp == Species.CO2 else 0.0)
        got = float(em.total_emissions[sp]) if sp in em.total_emissions else 0.0
        if not close(got, exp, 1e-9, 1e-9):
            bad('species total is not the sum of its trajectory, LTO, APU and GSE amounts',
                species=sp.name, total=got, sum_of_parts=exp)
    # (5) CO2 / H2O: every kilogram of trajectory + LTO fuel counted once -----------------------------------------
    for sp, on, ei in ((Species.CO2, cfg['co2_enabled'], float(fuel.EI_CO2)),
                       (Species.H2O, cfg['h2o_enabled'], float(fuel.EI_H2O))):
        if not on:
            continue
        if sp not in em.trajectory_emissions or sp not in em.lto_emissions:
            bad('enabled fuel-proportional species missing from the inventory', species=sp.name)
            continue
        got = math.fsum([float(x) for x in np.asarray(em.trajectory_emissions[sp], float)]
                        + [float(em.lto_emissions[sp][TMm[m]]) for m in MODES])
        if not close(got, ei * (window_fuel + lto_fuel), 1e-9, 1e-6):
            bad('trajectory+LTO amount is not EI x (trajectory + LTO fuel)', species=sp.name,
                amount=got, expected=ei * (window_fuel + lto_fuel))
    # (6) speciation ---------------------------------------------------------------------------------------------------
    fam = ((Species.NOx, (Species.NO, Species.NO2, Species.HONO)),
           (Species.SOx, (Species.SO2, Species.SO4)))
    for parent, kids in fam:
        if parent in em.trajectory_emissions:
            if not all(kk in em.trajectory_emissions for kk in kids):
                bad('speciation incomplete in trajectory part', parent=parent.name)
            else:
                p = np.asarray(em.trajectory_emissions[parent], float)
                s = sum(np.asarray(em.trajectory_emissions[kk], float) for kk in kids)
                if not np.allclose(p, s, rtol=1e-9, atol=1e-12):
                    bad('speciated amounts do not add up to the parent (trajectory)',
                        parent=parent.name)
        if parent in em.lto_emissions:
            for m in MODES:
                if not all(kk in em.lto_emissions for kk in kids):
                    bad('speciation incomplete in LTO part', parent=parent.name)
                    break
                p = float(em.lto_emissions[parent][TMm[m]])
                s = math.fsum(float(em.lto_emissions[kk][TMm[m]]) for kk in kids)
                if not close(p, s, 1e-9, 1e-12):
                    bad('speciated amounts do not add up to the parent (LTO)',
                        parent=parent.name, mode=m)
        for label, part in (('APU', em.apu_emissions), ('GSE', em.gse_emissions)):
            if parent in part:
                if not all(kk in part for kk in kids):
                    bad(f'speciation incomplete in {label} part', parent=parent.name)
                elif not close(float(part[parent]), math.fsum(float(part[kk]) for kk in kids),
                               1e-9, 1e-12):
                    bad(f'speciated amounts do not add up to the parent ({label})',
                        parent=parent.name)
    return probs


def disabled_species(cfg: dict):
    from AEIC.types import Species as S
    off = set()
    if not cfg['co2_enabled']:
        off.add(S.CO2)
    if not cfg['h2o_enabled']:
        off.add(S.H2O)
    if not cfg['sox_enabled']:
        off |= {S.SOx, S.SO2, S.SO4}
    if cfg['nox_method'] == 'none':
        off |= {S.NOx, S.NO, S.NO2, S.HONO}
    if cfg['hc_method'] == 'none':
        off.add(S.HC)
    if cfg['co_method'] == 'none':
        off.add(S.CO)
    if cfg['pmvol_method'] == 'none':
        off |= {S.PMvol, S.OCic}
    if cfg['pmnvol_method'] == 'none':
        off |= {S.PMnvol, S.PMnvolN}
    return off


def check_switched_off(em, cfg):
    """A species switched off is absent or identically zero in trajectory and LTO parts."""
    from AEIC.performance.types import ThrustMode
    probs = []
    for sp in disabled_species(cfg):
        for label, part, kind in (('trajectory', em.trajectory_emissions, 'arr'),
                                  ('LTO', em.lto_emissions, 'tm')):
            if sp in part:
                v = part[sp]
                vals = np.asarray(v, float).ravel().tolist() if kind == 'arr' else \
                    [float(v[m]) for m in ThrustMode]
                if any(x != 0.0 for x in vals):
                    probs.append(('a switched-off species contributes to the inventory',
                                  {'species': sp.name, 'part': label}))
    return probs


def run_config(cfg: dict, hdir):
    from vlib import world
    world.load_config(hdir, emissions={**cfg, 'fuel': 'conventional_jetA'})


def classify_exception(e: BaseException, cfg: dict):
    """-> 'named-refusal' | 'internal-error'"""
    msg = str(e)
    if isinstance(e, NotImplementedError | ValueError | RuntimeError):
        unsupported = [str(cfg[k]) for k in ('nox_method', 'hc_method', 'co_method',
                                             'pmvol_method', 'pmnvol_method')]
        if any(u.lower() in msg.lower() for u in unsupported if u != 'none'):
            return 'named-refusal'
    return 'internal-error'
