"""Harness world: an OurAirports-format airports.csv with the repository's
test airports plus synthetic hostile ones, and the explicit Config loading
every shard uses."""

from __future__ import annotations

import csv
from pathlib import Path

from vlib import boot

HEADER = ["id", "ident", "type", "name", "latitude_deg", "longitude_deg", "elevation_ft",
          "continent", "iso_country", "iso_region", "municipality", "scheduled_service",
          "icao_code", "iata_code", "gps_code", "local_code", "home_link",
          "wikipedia_link", "keywords"]

# code, lat, lon, elevation_ft, country, continent, tag
SYNTH = [
    ('XA1', 10.0, 179.5, 20, 'FJ', 'OC', 'antimeridian'),
    ('XA2', 12.0, -179.3, 15, 'US', 'NA', 'antimeridian'),
    ('XA3', -20.0, 178.9, 30, 'FJ', 'OC', 'antimeridian'),
    ('XA4', -17.0, -178.7, 10, 'TO', 'OC', 'antimeridian'),
    ('XA5', 35.0, 170.0, 5, 'JP', 'AS', 'antimeridian-long'),
    ('XA6', 40.0, -165.0, 12, 'US', 'NA', 'antimeridian-long'),
    ('XA7', -45.0, 165.0, 40, 'NZ', 'OC', 'antimeridian-long'),
    ('XA8', -30.0, -160.0, 8, 'PF', 'OC', 'antimeridian-long'),
    ('XP1', 85.0, 10.0, 50, 'NO', 'EU', 'polar'),
    ('XP2', 88.0, -120.0, 60, 'CA', 'NA', 'polar'),
    ('XP3', 80.0, 100.0, 100, 'RU', 'AS', 'polar'),
    ('XP4', -80.0, 45.0, 9000, 'AQ', 'AN', 'polar'),
    ('XP5', -86.0, 170.0, 9300, 'AQ', 'AN', 'polar'),
    ('XN1', 10.0, 20.0, 1200, 'TD', 'AF', 'near-antipodal'),
    ('XN2', -10.2, -159.7, 10, 'CK', 'OC', 'near-antipodal'),
    ('XN3', 0.3, 100.0, 90, 'ID', 'AS', 'near-antipodal'),
    ('XN4', -0.2, -80.4, 9200, 'EC', 'SA', 'near-antipodal'),
    ('XL1', 0.0, 30.0, 3000, 'UG', 'AF', 'same-longitude'),
    ('XL2', 25.0, 30.0, 300, 'EG', 'AF', 'same-longitude'),
    ('XL3', 50.0, 30.0, 400, 'UA', 'EU', 'same-longitude'),
    ('XT1', 45.0, 0.0, 200, 'FR', 'EU', 'same-latitude'),
    ('XT2', 45.0, 30.0, 100, 'UA', 'EU', 'same-latitude'),
    ('XT3', 45.0, 90.0, 2500, 'CN', 'AS', 'same-latitude'),
    ('XC1', 40.0, -75.0, 30, 'US', 'NA', 'close'),
    ('XC2', 40.1, -75.1, 40, 'US', 'NA', 'close'),
    ('XC3', 40.5, -75.2, 300, 'US', 'NA', 'close'),
    ('XE1', 31.0, 35.5, -1312, 'JO', 'AS', 'below-sea-level'),
    ('XE2', -16.5, -68.2, 13325, 'BO', 'SA', 'high'),
    ('XE3', 29.3, 100.05, 14472, 'CN', 'AS', 'high'),
    ('XE4', 30.0, 91.0, 42650, 'CN', 'AS', 'above-cruise'),
    ('XQ1', 0.0, 0.0, 0, 'GH', 'AF', 'equator'),
    ('XQ2', 0.0, 90.0, 0, 'ID', 'AS', 'equator'),
    ('XQ3', 0.0, -90.0, 0, 'EC', 'SA', 'equator'),
    # country codes that text readers like to "interpret": Namibia (NA), Norway (NO, a YAML
    # false), and codes equal to continent codes
    ('XW1', -22.48, 17.47, 5640, 'NA', 'AF', 'country-code-NA'),
    ('XW2', -26.5, 18.1, 3500, 'NA', 'AF', 'country-code-NA'),
]
_world_cache: dict | None = None


def repo_airports() -> list[dict]:
    rows = []
    with open(boot.REPO_TEST_DATA / 'airports' / 'airports.csv', newline='',
              encoding='utf-8') as f:
        for r in csv.DictReader(f):
            rows.append(r)
    return rows


def write_world(hdir: Path) -> dict[str, dict]:
    """Write hdir/airports/airports.csv; return code -> {lat, lon, elev_m, tag, country}."""
    d = hdir / 'airports'
    d.mkdir(parents=True, exist_ok=True)
    world = {}
    rows = repo_airports()
    for r in rows:
        if r['iata_code']:
            world[r['iata_code']] = {
                'lat': float(r['latitude_deg']), 'lon': float(r['longitude_deg']),
                'elev_m': float(r['elevation_ft']) * 0.3048 if r['elevation_ft'] else 0.0,
                'tag': 'repo', 'country': r['iso_country'], 'continent': r['continent']}
    for i, (code, lat, lon, elev, ctry, cont, tag) in enumerate(SYNTH):
        rows.append({h: '' for h in HEADER} | {
            'id': str(900000 + i), 'ident': 'Z' + code, 'type': 'large_airport',
            'name': f'Harness {tag} {code}', 'latitude_deg': repr(lat),
            'longitude_deg': repr(lon), 'elevation_ft': repr(elev), 'continent': cont,
            'iso_country': ctry, 'iso_region': ctry + '-X', 'municipality': 'Harnessville',
            'scheduled_service': 'yes', 'icao_code': 'Z' + code, 'iata_code': code})
        world[code] = {'lat': lat, 'lon': lon, 'elev_m': elev * 0.3048, 'tag': tag,
                       'country': ctry, 'continent': cont}
    # historical airports the library adds from its own supplemental file
    with open(boot.REPO_PKG_DATA / 'airports' / 'airports-patch.csv', newline='',
              encoding='utf-8') as f:
        for r in csv.DictReader(f):
            if r['iata_code']:
                world[r['iata_code']] = {
                    'lat': float(r['latitude_deg']), 'lon': float(r['longitude_deg']),
                    'elev_m': float(r['elevation_ft']) * 0.3048 if r['elevation_ft'] else 0.0,
                    'tag': 'patch', 'country': r['iso_country'], 'continent': r['continent']}
    with open(d / 'airports.csv', 'w', newline='', encoding='utf-8') as f:
        w = csv.DictWriter(f, fieldnames=HEADER, quoting=csv.QUOTE_ALL)
        w.writeheader()
        for r in rows:
            w.writerow({h: r.get(h, '') for h in HEADER})
    return world


def load_config(hdir: Path | None = None, **overrides):
    """Explicit configuration load (AEIC_PATH is never used by the harness)."""
    from AEIC.config import Config

    Config.reset()
    paths = ([str(hdir)] if hdir else []) + [str(boot.REPO_TEST_DATA),
                                             str(boot.REPO_PKG_DATA)]
    return Config.load(path=paths, data_path_overrides=paths[:-1], **overrides)
