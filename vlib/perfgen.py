"""Generators of legacy performance tables (valid and deliberately invalid) and
of BADA PTF text files."""

from __future__ import annotations

import copy

LTO = {
    'source': 'EDB', 'ICAO_UID': '01P11CM121', 'rated_thrust': 102.695,
    'mode_data': {
        'idle': dict(thrust_frac=0.07, fuel_kgs=0.11, EI_NOx=4.36, EI_HC=1.54, EI_CO=29.39),
        'approach': dict(thrust_frac=0.3, fuel_kgs=0.343, EI_NOx=9.09, EI_HC=0.05, EI_CO=2.82),
        'climb': dict(thrust_frac=0.85, fuel_kgs=1.031, EI_NOx=17.89, EI_HC=0.02, EI_CO=0.17),
        'takeoff': dict(thrust_frac=1.0, fuel_kgs=1.293, EI_NOx=23.94, EI_HC=0.03, EI_CO=0.31),
    },
}
SPEEDS = {p: dict(cas_low=128.6, cas_high=150.0, mach=0.8) for p in ('climb', 'cruise', 'descent')}
FL_POOL = [0, 5, 10, 15, 20, 30, 40, 60, 80, 100, 120, 140, 160, 180, 200, 220, 240, 260, 280,
           290, 310, 330, 350, 370, 390, 410, 430, 450, 600]


def gen_table(rng):
    """-> dict phase -> {'fls': [...], 'masses': [...], 'tas': {fl}, 'rocd': {(fl,m)},
    'ff': {(fl,m)}} obeying the documented FL-only dependencies."""
    masses = sorted(rng.sample(range(30000, 400000, 137), 3))
    masses = [float(m) for m in masses]

    def fls(minimum):
        n = rng.randint(minimum, 14)
        return sorted(float(f) for f in rng.sample(FL_POOL, n))

    t = {'masses': masses}
    # one table in five: the values of a mass-tabulated phase do not vary with mass (e.g.
    # cruise fuel replicated from nominal data); the phase still HAS a mass range
    flat = rng.random() < 0.2
    cl = fls(2)
    t['climb'] = {'fls': cl, 'masses': masses,
                  'tas': {f: rng.uniform(70, 260) for f in cl},
                  'ff': {}, 'rocd': {}}
    for f in cl:
        ffv = rng.uniform(0.3, 4.0)
        rov = rng.uniform(0.5, 45.0)
        for m in masses:
            t['climb']['ff'][(f, m)] = ffv
            t['climb']['rocd'][(f, m)] = rov if flat else rng.uniform(0.5, 45.0)
    cr = fls(2)
    t['cruise'] = {'fls': cr, 'masses': masses,
                   'tas': {f: rng.uniform(70, 260) for f in cr}, 'ff': {}, 'rocd': {}}
    for f in cr:
        ffc = rng.uniform(0.2, 3.0)
        for m in masses:
            t['cruise']['ff'][(f, m)] = ffc if flat else rng.uniform(0.2, 3.0)
            t['cruise']['rocd'][(f, m)] = 0.0
    t['mass_independent_values'] = flat
    de = fls(2)
    nom = masses[1]
    t['descent'] = {'fls': de, 'masses': [nom],
                    'tas': {f: rng.uniform(70, 260) for f in de}, 'ff': {}, 'rocd': {}}
    for f in de:
        t['descent']['ff'][(f, nom)] = rng.uniform(0.05, 0.8)
        t['descent']['rocd'][(f, nom)] = -rng.uniform(0.5, 25.0)
    return t


def regen_values(rng, t):
    """Same flight levels and masses as ``t``, fresh values."""
    t2 = {'masses': list(t['masses'])}
    for ph in ('climb', 'cruise', 'descent'):
        p = t[ph]
        q = {'fls': list(p['fls']), 'masses': list(p['masses']),
             'tas': {f: rng.uniform(70, 260) for f in p['fls']}, 'ff': {}, 'rocd': {}}
        for f in p['fls']:
            ffv = rng.uniform(0.05, 4.0)
            rov = rng.uniform(0.5, 25.0)
            for m in p['masses']:
                q['ff'][(f, m)] = ffv if ph != 'cruise' else rng.uniform(0.2, 3.0)
                q['rocd'][(f, m)] = (rng.uniform(0.5, 45.0) if ph == 'climb' else
                                     0.0 if ph == 'cruise' else -rov)
        t2[ph] = q
    return t2


def table_rows(t, rng=None):
    rows = []
    for ph in ('climb', 'cruise', 'descent'):
        p = t[ph]
        for f in p['fls']:
            for m in p['masses']:
                rows.append([p['ff'][(f, m)], f, p['tas'][f], p['rocd'][(f, m)], m])
    if rng is not None:
        rng.shuffle(rows)
    return rows


def model_dict(rows, extra_col=False, max_alt_ft=45000, apu=None):
    cols = ['fuel_flow', 'fl', 'tas', 'rocd', 'mass']
    data = [list(r) + ([1.0] if extra_col else []) for r in rows]
    d = {'model_type': 'legacy', 'aircraft_name': 'HRN', 'aircraft_class': 'narrow',
         'maximum_altitude_ft': max_alt_ft, 'maximum_payload_kg': 20000,
         'number_of_engines': 2, 'speeds': copy.deepcopy(SPEEDS),
         'LTO_performance': copy.deepcopy(LTO),
         'flight_performance': {'cols': cols, 'data': data}}
    if apu:
        d['apu_name'] = apu
    return d


# ---------------------------------------------------------------------------
# PTF text


def gen_ptf(rng):
    """-> (text, spec) where spec holds the numbers exactly as printed."""
    n = rng.randint(5, 22)
    fls = sorted(rng.sample([f for f in FL_POOL if f <= 450], n))
    first_cruise = rng.randint(0, max(0, n - 3))
    low, nom, high = sorted(rng.sample(range(20000, 300000), 3))
    spec = {'fls': fls, 'low': low, 'nom': nom, 'high': high, 'rows': {},
            'max_alt': rng.choice([25000, 41000, 45000]), 'payload': rng.randint(1000, 60000),
            'name': rng.choice(['B738__', 'A320__', 'AT72__', 'HRN___'])}
    L = []
    L.append('BADA PERFORMANCE FILE                                        Oct 04 2026')
    L.append('')
    L.append(f'AC/Type: {spec["name"]}')
    L.append('                              Source OPF File:               Oct 04 2026')
    L.append('                              Source APF file:               Oct 04 2026')
    L.append('')
    L.append(' Speeds:   CAS(LO/HI)  Mach   Mass Levels [kg]         Temperature:  ISA')
    L.append(f' climb   - 250/300     0.80   low     -   {low}')
    L.append(f' cruise  - 250/280     0.78   nominal -   {nom}        Max Alt. [ft]:  '
             f'{spec["max_alt"]}')
    L.append(f' descent - 250/290     0.79   high    -   {high}        Max Payload [kg]:  '
             f'{spec["payload"]}')
    bar = '=' * 90
    L += [bar, ' FL |          CRUISE           |               CLIMB               |'
          '       DESCENT',
          '    |  TAS          fuel        |  TAS          ROCD         fuel   |  TAS  ROCD'
          '    fuel',
          '    | [kts]       [kg/min]      | [kts]        [fpm]       [kg/min] | [kts] [fpm]'
          ' [kg/min]',
          '    |          lo   nom    hi   |         lo    nom    hi    nom    |        nom'
          '    nom', bar]
    # the top one or two levels may lie above the climb ceiling: their CLIMB cell is blank
    n_blank_climb = rng.choice([0, 0, 1, 2]) if n >= 7 else 0
    spec['blank_climb_levels'] = n_blank_climb
    for i, fl in enumerate(fls):
        r = {}
        if i >= first_cruise:
            r['cruise'] = (rng.randint(150, 490), round(rng.uniform(5, 150), 2),
                           round(rng.uniform(5, 150), 2), round(rng.uniform(5, 150), 2))
            cr = f'  {r["cruise"][0]:3d}   {r["cruise"][1]:6.2f} {r["cruise"][2]:6.2f} ' \
                 f'{r["cruise"][3]:6.2f}'
        else:
            cr = ''
        r['climb'] = (rng.randint(100, 480), rng.randint(50, 9000), rng.randint(50, 9000),
                      rng.randint(50, 9000), round(rng.uniform(5, 300), 2))
        r['descent'] = (rng.randint(100, 480), rng.randint(100, 4000),
                        round(rng.uniform(1, 60), 2))
        cl = f'  {r["climb"][0]:3d}   {r["climb"][1]:5d} {r["climb"][2]:5d} {r["climb"][3]:5d}' \
             f'  {r["climb"][4]:6.2f}'
        if i >= n - n_blank_climb:
            cl = ''
            del r['climb']
        de = f'  {r["descent"][0]:3d}  {r["descent"][1]:5d}  {r["descent"][2]:6.2f}'
        L.append(f'{fl:3d} | {cr:<25s} | {cl:<33s} | {de}')
        L.append('    |                           |                                   |')
        spec['rows'][fl] = r
    L.append(bar)
    L.append('')
    return '\n'.join(L) + '\n', spec
