"""pytest plugin: run the repository's own tests with the C01 / C02 postconditions
attached (a second workload for the same monitors).  Enabled with
``-p vlib.pytest_contracts``; results go to the JSON file named by
AEIC_VERIF_CONTRACT_OUT."""

from __future__ import annotations

import json
import os

RESULT = {'c01_evaluations': 0, 'c02_evaluations': 0, 'problems': []}


def _cfg_dict():
    from AEIC.config import config
    e = config.emissions
    return {k: (str(getattr(e, k)) if not isinstance(getattr(e, k), bool) else getattr(e, k))
            for k in ('climb_descent_mode', 'co2_enabled', 'h2o_enabled', 'sox_enabled',
                      'nox_method', 'hc_method', 'co_method', 'pmvol_method', 'pmnvol_method',
                      'apu_enabled', 'gse_enabled', 'lifecycle_enabled')}


def pytest_configure(config):
    from vlib import boot
    boot.ensure_deps()          # not boot(): the test-suite relies on AEIC_PATH
    import icontract

    import AEIC.emissions as E
    import AEIC.emissions.emission as EM
    from AEIC.trajectories.builders.base import Builder
    from vlib import emis, flightgen

    def balanced(pm, fuel, traj, result):
        RESULT['c01_evaluations'] += 1
        try:
            probs = emis.check_inventory(result, pm, fuel, traj, _cfg_dict())
        except Exception as e:  # noqa: BLE001  (dummy objects of the tests may lack fields)
            RESULT.setdefault('oracle_errors', []).append(f'C01 {type(e).__name__}: {e}'[:200])
            return True
        for mech, det in probs[:3]:
            RESULT['problems'].append({'property': 'C01', 'mechanism': mech,
                                       'detail': {k: str(v)[:120] for k, v in det.items()},
                                       'test': os.environ.get('PYTEST_CURRENT_TEST', '')})
        return True

    wrapped = icontract.ensure(balanced)(EM.compute_emissions)
    EM.compute_emissions = wrapped
    E.compute_emissions = wrapped

    def consistent(self, ac_performance, mission, result):
        from AEIC.utils.airports import airport
        RESULT['c02_evaluations'] += 1
        w = {}
        for code in (mission.origin, mission.destination):
            a = airport(code)
            w[code] = {'lat': a.latitude, 'lon': a.longitude, 'elev_m': a.elevation or 0.0}
        try:
            probs = flightgen.check_trajectory(result, ac_performance, w, mission)
            probs += flightgen.check_resampling(result)
        except Exception as e:  # noqa: BLE001
            RESULT.setdefault('oracle_errors', []).append(f'C02 {type(e).__name__}: {e}'[:200])
            return True
        for mech, det in probs[:3]:
            RESULT['problems'].append({'property': 'C02', 'mechanism': mech,
                                       'detail': {k: str(v)[:120] for k, v in det.items()},
                                       'test': os.environ.get('PYTEST_CURRENT_TEST', '')})
        return True

    Builder.fly = icontract.ensure(consistent)(Builder.fly)


def pytest_sessionfinish(session, exitstatus):
    out = os.environ.get('AEIC_VERIF_CONTRACT_OUT')
    RESULT['pytest_exit'] = int(exitstatus)
    if out:
        with open(out, 'w') as f:
            json.dump(RESULT, f)


def run_repo_tests(prop: str, test_files: list[str], rec, timeout=1500):
    """Harness side: run the repository's own tests with the plugin on and merge
    what the postconditions observed into ``rec``."""
    import subprocess
    import tempfile
    from pathlib import Path

    from vlib import boot

    with tempfile.TemporaryDirectory(prefix='aeicv-pt-') as td:
        out = Path(td) / 'out.json'
        env = dict(os.environ)
        env['AEIC_VERIF_CONTRACT_OUT'] = str(out)
        env['PYTHONPATH'] = f'{boot.VERIF}:{boot.DEPS}'
        if os.environ.get('VERIF_REPO'):
            env['PYTHONPATH'] += f":{boot.REPO / 'src'}"
        env.pop('AEIC_PATH', None)
        p = subprocess.run([boot.PY, '-m', 'pytest', '-q', '-p', 'no:cacheprovider', '-p',
                            'vlib.pytest_contracts', '--timeout=900', *test_files],
                           cwd=str(boot.REPO), env=env, capture_output=True, text=True,
                           timeout=timeout)
        if not out.exists():
            rec.inconc(f'repository tests under contracts produced no result file: '
                       f'{(p.stdout or "")[-300:]}')
            return
        d = json.loads(out.read_text())
    key = f'{prop.lower()}_evaluations'
    rec.ev(d.get(key, 0))
    rec.count('contract_evaluations_in_repo_tests', d.get(key, 0))
    if d.get(key, 0):
        rec.cls('workload:repository-tests-under-contract')
    for pr in d['problems']:
        if pr['property'] == prop:
            rec.violation(pr['mechanism'] + ' (seen while running the repository\'s own tests)',
                          pr['detail'], {'k': 'repo-tests', 'test': pr['test'],
                                         'spec': {'pytest': test_files}})
    for e in d.get('oracle_errors', [])[:3]:
        rec.count('oracle_errors_on_test_doubles')
