"""Source-free fault injection (shape S4).

* an audit hook (installed once per process, switched by module state) that
  records and can fail ``os.mkdir`` / ``os.rename`` / ``open`` events below a
  watched directory *before* the operation takes effect;
* wrappers that let an operation take effect and fail *afterwards*;
* ``sys.monitoring`` LINE failpoints: raise at the n-th executed line of a set
  of code objects.
"""

from __future__ import annotations

import contextlib

import os
import sys
from contextlib import contextmanager


class InjectedFault(OSError):
    """The exception every failpoint raises (an OSError: what a failing
    file-system step would raise)."""


_state = {'on': False, 'root': None, 'events': [], 'fail_at': None, 'action': None,
          'fired': False}
_installed = False
_WATCH = ('os.mkdir', 'os.rename', 'open')


def _hook(event, args):
    st = _state
    if not st['on'] or event not in _WATCH:
        return
    try:
        path = os.fspath(args[0]) if args and args[0] is not None else ''
        if isinstance(path, bytes):
            path = path.decode('utf-8', 'replace')
    except TypeError:
        return
    if not isinstance(path, str) or st['root'] not in path:
        return
    if event == 'open':
        mode = args[1] if len(args) > 1 else 'r'
        if not (isinstance(mode, str) and any(c in mode for c in 'wax+')):
            return                      # only writing opens are file-system steps
    idx = len(st['events'])
    st['events'].append((event, os.path.basename(path)))
    if st['fail_at'] == idx:
        st['fired'] = True
        act = st['action']
        if act == 'kill':
            os._exit(77)
        raise InjectedFault(f'injected fault before {event} #{idx} ({os.path.basename(path)})')


def install():
    global _installed
    if not _installed:
        sys.addaudithook(_hook)
        _installed = True


@contextmanager
def fs_watch(root: str, fail_at: int | None = None, action: str = 'raise'):
    """Record (and optionally fail, before it happens) the fail_at-th
    file-system step below ``root``."""
    install()
    _state.update(on=True, root=str(root), events=[], fail_at=fail_at, action=action,
                  fired=False)
    try:
        yield _state
    finally:
        _state['on'] = False


class CallFault:
    """Wrap a callable: fail the n-th call before or after it takes effect."""

    def __init__(self, fn, fail_at: int | None, when: str, action: str = 'raise',
                 partial=None):
        self.fn, self.fail_at, self.when, self.action = fn, fail_at, when, action
        self.calls = 0
        self.fired = False
        self.partial = partial

    def _boom(self, what):
        self.fired = True
        if self.action == 'kill':
            os._exit(77)
        raise InjectedFault(f'injected fault {self.when} {what} call #{self.calls - 1}')

    def __call__(self, *a, **k):
        i = self.calls
        self.calls += 1
        name = getattr(self.fn, '__name__', str(self.fn))
        if i == self.fail_at and self.when == 'before':
            self._boom(name)
        if i == self.fail_at and self.when == 'partial' and self.partial is not None:
            self.partial(*a, **k)
            self._boom(name)
        r = self.fn(*a, **k)
        if i == self.fail_at and self.when == 'after':
            self._boom(name)
        return r


TOOL_ID = 3


@contextmanager
def line_failpoint(codes, fail_at: int | None):
    """LINE events on the given code objects; raises InjectedFault at the
    fail_at-th event.  Yields a dict with 'events' (list of (name, line))."""
    mon = sys.monitoring
    st = {'events': [], 'fired': False}
    try:
        mon.use_tool_id(TOOL_ID, 'aeic-verif-failpoints')
    except ValueError:
        mon.free_tool_id(TOOL_ID)
        mon.use_tool_id(TOOL_ID, 'aeic-verif-failpoints')

    def on_line(code, line):
        idx = len(st['events'])
        st['events'].append((code.co_name, line))
        if fail_at is not None and idx == fail_at:
            st['fired'] = True
            raise InjectedFault(f'injected fault at line {line} of {code.co_name} '
                                f'(line event #{idx})')

    mon.register_callback(TOOL_ID, mon.events.LINE, on_line)
    for c in codes:
        mon.set_local_events(TOOL_ID, c, mon.events.LINE)
    try:
        yield st
    finally:
        for c in codes:
            mon.set_local_events(TOOL_ID, c, 0)
        mon.register_callback(TOOL_ID, mon.events.LINE, None)
        mon.free_tool_id(TOOL_ID)


@contextlib.contextmanager
def store_clock(kind: str | None):
    """Environment variation: what the store module sees as 'now'.  'whole-second': a time
    stamp without fractional seconds (one creation in a million in real life - isoformat()
    then omits the fraction)."""
    if kind is None:
        yield
        return
    import AEIC.trajectories.store as S
    real = S.datetime

    class _Clock(real):
        @classmethod
        def now(cls, tz=None):
            return real.now(tz).replace(microsecond=0)
    S.datetime = _Clock
    try:
        yield
    finally:
        S.datetime = real
