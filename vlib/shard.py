"""Entry point of one shard process: python -m vlib.shard <ID> <spec.json> <out.json>"""

from __future__ import annotations

import faulthandler
import importlib
import json
import sys
import traceback
from pathlib import Path

from vlib import boot


def main() -> int:
    prop, specf, outf = sys.argv[1:4]
    faulthandler.enable()
    boot.boot()
    from vlib.rec import Rec

    spec = json.loads(Path(specf).read_text(encoding='utf-8'))
    mod = importlib.import_module(f'checks.{prop.lower()}')
    rec = Rec(prop)
    try:
        mod.run_shard(spec, rec)
    except BaseException as e:  # harness failure: never a verdict on the code
        tb = traceback.format_exc()
        rec.inconc(f'harness error in shard {spec.get("shard")}: {type(e).__name__}: '
                   f'{str(e)[:300]} :: {tb[-900:]}')
    Path(outf).write_text(json.dumps(rec.result(), default=str), encoding='utf-8')
    return 0


if __name__ == '__main__':
    sys.exit(main())
