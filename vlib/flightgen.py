"""Missions over the harness world, plausible performance-model variants and the
independent trajectory invariants used by C02 and C17."""

from __future__ import annotations

import copy
import math
import tomllib

import numpy as np

from vlib import boot, geodesy

FT = 0.3048


def sample_model_dict() -> dict:
    with open(boot.REPO_PKG_DATA / 'performance' / 'sample_performance_model.toml', 'rb') as f:
        return tomllib.load(f)


def special_model(base: dict, ceiling_ft=None, climb_ff_scale=None, descent_rocd_scale=None):
    """The sample table with a lower ceiling, a thirstier climb and descent, and / or a
    shallower descent."""
    d = copy.deepcopy(base)
    cols = [c.lower() for c in d['flight_performance']['cols']]
    iff, iro = cols.index('fuel_flow'), cols.index('rocd')
    if descent_rocd_scale:
        for r in d['flight_performance']['data']:
            if r[iro] < -1e-6:
                r[iro] *= descent_rocd_scale
    if climb_ff_scale:
        for r in d['flight_performance']['data']:
            if abs(r[iro]) > 1e-6:
                r[iff] *= climb_ff_scale
    if ceiling_ft:
        d['maximum_altitude_ft'] = ceiling_ft
    return d


def variant_model(rng, base: dict):
    """A valid variant of the sample table: values scaled by smooth FL-only factors per
    phase, some flight levels removed (complete grid kept), other ceiling / masses."""
    d = copy.deepcopy(base)
    cols = [c.lower() for c in d['flight_performance']['cols']]
    iff, ifl, itas, iro, ima = (cols.index(c) for c in ('fuel_flow', 'fl', 'tas', 'rocd', 'mass'))
    rows = [r[:len(cols)] for r in d['flight_performance']['data']]
    fls = sorted({r[ifl] for r in rows})
    drop = set(rng.sample([f for f in fls if 0 < f < 410], rng.randint(0, 6)))
    a = {ph: (rng.uniform(0.85, 1.15), rng.uniform(-0.1, 0.1)) for ph in 'czd'}
    b = {ph: (rng.uniform(0.85, 1.15), rng.uniform(-0.1, 0.1)) for ph in 'czd'}
    c = {ph: (rng.uniform(0.85, 1.15), rng.uniform(-0.1, 0.1)) for ph in 'czd'}
    mscale = rng.uniform(0.9, 1.1)
    out = []
    for r in rows:
        if r[ifl] in drop:
            continue
        ph = 'c' if r[iro] > 1e-6 else ('d' if r[iro] < -1e-6 else 'z')
        x = r[ifl] / 410.0
        r = list(r)
        r[itas] *= a[ph][0] * (1 + a[ph][1] * x)
        r[iro] *= b[ph][0] * (1 + b[ph][1] * x)
        r[iff] *= c[ph][0] * (1 + c[ph][1] * x)
        r[ima] = round(r[ima] * mscale, 3)
        out.append(r)
    d['flight_performance']['data'] = out
    d['maximum_altitude_ft'] = rng.choice([41000, 41000, 39000, 37000, 35000])
    d['maximum_payload_kg'] = int(d['maximum_payload_kg'] * rng.uniform(0.6, 1.2))
    return d


# ---------------------------------------------------------------------------


def route_kind(w, a, b):
    ta, tb_ = w[a]['tag'], w[b]['tag']
    for t in ('above-cruise', 'high', 'below-sea-level', 'polar', 'near-antipodal', 'close'):
        if t in (ta, tb_):
            return t
    if abs(w[a]['lon'] - w[b]['lon']) > 180:
        return 'antimeridian'
    return 'ordinary'


_SHORT: dict = {}


def gen_mission(rng, w, kind=None):
    import pandas as pd

    from AEIC.missions import Mission

    codes = sorted(c for c in w if w[c]['tag'] != 'patch')
    feasible = rng.random() < 0.8          # mostly within the range of the sample aircraft
    best = None
    if kind is None or rng.random() < 0.08:
        # a hop too short for climb + descent (the builder may refuse it; whatever it
        # returns must still be a consistent trajectory)
        short = _SHORT.get(id(w))
        if short is None:
            short = [(a, b) for a in codes for b in codes if a != b and
                     (geodesy.inverse(w[a]['lat'], w[a]['lon'], w[b]['lat'], w[b]['lon'])
                      or (9e9,))[0] < 2.2e5]
            _SHORT[id(w)] = short
            _SHORT[('keep', id(w))] = w
        if short and rng.random() < (0.08 if kind is None else 1.0):
            a, b = rng.choice(short)
            t0 = pd.Timestamp('2024-09-01T12:00:00Z')
            return Mission(origin=a, destination=b, departure=t0,
                           arrival=t0 + pd.Timedelta(hours=1), load_factor=rng.random(),
                           aircraft_type='738'), 'short-hop'
    for _ in range(400):
        a, b = rng.sample(codes, 2)
        if kind is not None and route_kind(w, a, b) != kind:
            continue
        best = best or (a, b)
        if not feasible:
            best = (a, b)
            break
        r = geodesy.inverse(w[a]['lat'], w[a]['lon'], w[b]['lat'], w[b]['lon'])
        if r is not None and 250e3 <= r[0] <= 4.2e6:
            best = (a, b)
            break
    a, b = best if best else rng.sample(codes, 2)
    t0 = pd.Timestamp('2024-09-01T12:00:00Z')
    return Mission(origin=a, destination=b, departure=t0, arrival=t0 + pd.Timedelta(hours=3),
                   load_factor=rng.choice([0.0, 1.0, rng.random(), rng.random()]),
                   aircraft_type='738'), route_kind(w, a, b)


# ---------------------------------------------------------------------------
# invariants of a returned trajectory


def check_trajectory(traj, pm, w, mission, rel=1e-9):
    """-> list of (mechanism, detail); independent of the builder's own bookkeeping."""
    probs = []

    def bad(mech, **d):
        probs.append((mech, d))
    n = len(traj)
    fields = ['fuel_flow', 'aircraft_mass', 'fuel_mass', 'ground_distance', 'altitude',
              'flight_level', 'rate_of_climb', 'flight_time', 'latitude', 'longitude',
              'azimuth', 'heading', 'true_airspeed', 'ground_speed']
    arr = {f: np.asarray(getattr(traj, f), float) for f in fields}
    for f, v in arr.items():
        if len(v) != n:
            bad('per-point field has the wrong length', field=f, length=len(v), n=n)
            return probs
        if not np.all(np.isfinite(v)):
            bad('trajectory contains a non-finite value', field=f,
                at=int(np.flatnonzero(~np.isfinite(v))[0]))
    if probs:
        return probs
    nc, ncr, nd = int(traj.n_climb), int(traj.n_cruise), int(traj.n_descent)
    if nc + ncr + nd + 1 != n or min(nc, ncr, nd) < 1:
        bad('phase point counts do not add up to the trajectory length',
            n_climb=nc, n_cruise=ncr, n_descent=nd, n=n)
        return probs
    am, fm = arr['aircraft_mass'], arr['fuel_mass']
    # 1. mass bookkeeping
    dry = am - fm
    if np.max(np.abs(dry - dry[0])) > rel * abs(am[0]) + 1e-6:
        i = int(np.argmax(np.abs(dry - dry[0])))
        bad('aircraft mass minus remaining fuel is not constant along the flight',
            at=i, dry_mass_0=float(dry[0]), dry_mass_i=float(dry[i]))
    for f, label in (('fuel_mass', 'remaining fuel'), ('aircraft_mass', 'aircraft mass')):
        dv = np.diff(arr[f])
        if np.any(dv > 1e-9 * abs(arr[f][0])):
            i = int(np.argmax(dv))
            bad(f'{label} increases along the flight', at=i + 1, before=float(arr[f][i]),
                after=float(arr[f][i + 1]), phase=_phase(i + 1, nc, ncr))
    for f, label in (('flight_time', 'elapsed time'), ('ground_distance', 'ground distance')):
        dv = np.diff(arr[f])
        if np.any(dv < -1e-9 * max(1.0, abs(arr[f][-1]))):
            i = int(np.argmin(dv))
            bad(f'{label} decreases along the flight', at=i + 1, before=float(arr[f][i]),
                after=float(arr[f][i + 1]), phase=_phase(i + 1, nc, ncr))
    # 2. first point carries the reported starting mass and fuel load
    if abs(am[0] - float(traj.starting_mass)) > rel * abs(am[0]) + 1e-9:
        bad('first point does not carry the reported starting mass',
            first=float(am[0]), reported=float(traj.starting_mass))
    if abs(fm[0] - float(traj.total_fuel_mass)) > rel * abs(fm[0]) + 1e-9:
        bad('first point does not carry the reported fuel load',
            first=float(fm[0]), reported=float(traj.total_fuel_mass))
    # 3. positions on the origin-destination great circle at the recorded distance
    o, d = w[mission.origin], w[mission.destination]
    r = geodesy.inverse(o['lat'], o['lon'], d['lat'], d['lon'])
    if r is None or r[3] > 40:
        from pyproj import Geod
        az = Geod(ellps='WGS84').inv(lons1=o['lon'], lats1=o['lat'], lons2=d['lon'],
                                     lats2=d['lat'])[0] % 360
    else:
        az = r[1]
    worst, wi = 0.0, -1
    for i in range(n):
        la, lo, _ = geodesy.direct(o['lat'], o['lon'], az, float(arr['ground_distance'][i]))
        e = geodesy.chord_m(la, lo, float(arr['latitude'][i]), float(arr['longitude'][i]))
        if e > worst:
            worst, wi = e, i
    lim = 0.05 + 1e-9 * float(arr['ground_distance'][-1]) if r is not None and r[3] <= 40 \
        else 5.0
    if worst > lim:
        bad('a position is not on the origin-destination great circle at the recorded ground '
            'distance', at=wi, error_m=worst, phase=_phase(wi, nc, ncr),
            distance=float(arr['ground_distance'][wi]))
    # 4. altitude schedule
    alt = arr['altitude']
    ceiling = pm.maximum_altitude_ft * FT
    start = o['elev_m'] + 3000 * FT
    if start >= ceiling:
        start = o['elev_m']
    cruise = max(ceiling - 7000 * FT, start)
    cruise = min(cruise, ceiling)
    end = d['elev_m'] + 3000 * FT
    if end >= ceiling:
        end = ceiling
    tol = 1e-6
    if abs(alt[0] - start) > tol:
        bad('flight does not start 3000 ft above the origin (origin elevation if that would '
            'reach the ceiling)', first_altitude=float(alt[0]), expected=start)
    if abs(alt[-1] - end) > tol:
        bad('descent does not end 3000 ft above the destination', last_altitude=float(alt[-1]),
            expected=end)
    if np.any(np.diff(alt[:nc]) < -tol):
        bad('altitude decreases during climb', at=int(np.argmin(np.diff(alt[:nc]))) + 1)
    if np.any(np.abs(alt[nc:nc + ncr] - cruise) > tol):
        i = nc + int(np.argmax(np.abs(alt[nc:nc + ncr] - cruise)))
        bad('altitude is not constant at the cruise level during cruise', at=i,
            altitude=float(alt[i]), cruise_level=cruise)
    if np.any(np.diff(alt[nc + ncr - 1:]) > tol):
        bad('altitude increases during descent',
            at=nc + ncr + int(np.argmax(np.diff(alt[nc + ncr - 1:]))))
    if np.any(alt > min(cruise, ceiling) + tol):
        bad('altitude exceeds the cruise level / ceiling', max_altitude=float(alt.max()),
            cruise_level=cruise, ceiling=ceiling)
    return probs


def _phase(i, nc, ncr):
    return 'climb' if i < nc else ('cruise' if i < nc + ncr else 'descent')


def check_resampling(traj):
    """Trajectory.interpolate_time at the own time points and at mid-times."""
    probs = []
    t = np.asarray(traj.flight_time, float)
    n = len(t)
    fields = ['fuel_flow', 'aircraft_mass', 'fuel_mass', 'ground_distance', 'altitude',
              'rate_of_climb', 'latitude', 'true_airspeed', 'ground_speed']
    own = traj.interpolate_time(t.copy())
    for f in fields:
        src = np.asarray(getattr(traj, f), float)
        got = np.asarray(getattr(own, f), float)
        if len(got) != n:
            probs.append(('resampled trajectory has the wrong length', {'field': f}))
            return probs
        if np.any(~np.isfinite(got)):
            probs.append(('resampling at the trajectory\'s own time points yields NaN',
                          {'field': f, 'n_nan': int(np.count_nonzero(~np.isfinite(got))),
                           'first': int(np.flatnonzero(~np.isfinite(got))[0]), 'n': n}))
            return probs
        for i in range(n):
            # at a duplicated time stamp (phase hand-over) either recorded value is fine
            cands = src[np.flatnonzero(t == t[i])]
            if not np.any(np.abs(cands - got[i]) <= 1e-9 * max(1.0, abs(got[i]))):
                probs.append(('resampling at an own time point does not give back the '
                              'recorded value', {'field': f, 'at': i, 'got': float(got[i]),
                                                 'recorded': cands.tolist()}))
                return probs
    # mid-times of strictly increasing neighbours
    idx = [i for i in range(n - 1) if t[i + 1] > t[i]]
    if idx:
        mids = np.array([0.5 * (t[i] + t[i + 1]) for i in idx])
        mid = traj.interpolate_time(mids)
        for f in fields:
            src = np.asarray(getattr(traj, f), float)
            got = np.asarray(getattr(mid, f), float)
            exp = np.array([0.5 * (src[i] + src[i + 1]) for i in idx])
            if np.any(~np.isfinite(got)) or np.any(np.abs(got - exp) > 1e-9 * (1 + np.abs(exp))):
                j = int(np.argmax(np.where(np.isfinite(got), np.abs(got - exp), np.inf)))
                probs.append(('resampling between two points is not the linear interpolation of '
                              'the neighbours', {'field': f, 'between': [idx[j], idx[j] + 1],
                                                 'got': float(got[j]), 'expected': float(exp[j])}))
                return probs
    # a grid of the SAME length whose times are nearly, but not exactly, the own time points
    # (time stamps after a ppm clock-rate correction, or after a float32 round trip)
    for label, grid in (('clock-rate corrected', t * (1 - 4e-6)),
                        ('float32 round trip', np.clip(t.astype(np.float32).astype(float),
                                                       t[0], t[-1]))):
        if np.array_equal(grid, t):
            continue
        near = traj.interpolate_time(grid.copy())
        ft = np.asarray(near.flight_time, float)
        if len(ft) != n or np.any(np.abs(ft - grid) > 1e-12 * (1 + np.abs(grid))):
            j = int(np.argmax(np.abs(ft - grid))) if len(ft) == n else -1
            probs.append(('resampled trajectory does not carry the requested time points',
                          {'grid': label, 'at': j, 'got': float(ft[j]) if j >= 0 else None,
                           'requested': float(grid[j]) if j >= 0 else None}))
            return probs
        for f in ('fuel_mass', 'ground_distance', 'altitude', 'aircraft_mass'):
            src = np.asarray(getattr(traj, f), float)
            got = np.asarray(getattr(near, f), float)
            exp = np.interp(grid, t, src)
            # at a duplicated own time stamp either side's value is acceptable: compare only
            # where the neighbours of the requested time are distinct in time
            lo = np.searchsorted(t, grid, side='right') - 1
            hi = np.minimum(lo + 1, n - 1)
            clear = (t[hi] > t[np.maximum(lo, 0)]) | (hi == lo)
            bad = clear & (np.abs(got - exp) > 1e-9 * (1 + np.abs(exp)))
            if np.any(bad):
                j = int(np.flatnonzero(bad)[0])
                probs.append(('resampling at times close to the own time points is not the '
                              'linear interpolation at the REQUESTED times',
                              {'grid': label, 'field': f, 'at': j, 'got': float(got[j]),
                               'expected': float(exp[j]), 'requested_time': float(grid[j]),
                               'own_time': float(t[j])}))
                return probs
    return probs
