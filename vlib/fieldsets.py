"""Harness field sets: all six dimension combinations x float/int/str types x
required / optional / defaulted.  Definitions are constants so that digests
are identical in every process."""

from __future__ import annotations

import numpy as np

from AEIC.performance.types import ThrustMode, ThrustModeValues
from AEIC.storage import Dimension, Dimensions, FieldMetadata, FieldSet
from AEIC.types import Species, SpeciesValues

T = Dimensions.from_abbrev('T')
TP = Dimensions.from_abbrev('TP')
TS = Dimensions.from_abbrev('TS')
TSP = Dimensions.from_abbrev('TSP')
TM = Dimensions.from_abbrev('TM')
TSM = Dimensions.from_abbrev('TSM')


def FM(dims, ft=np.float64, required=True, default=None, d=''):
    return FieldMetadata(dimensions=dims, field_type=ft, description=d or 'harness field',
                         units='u', required=required, default=default)


VX_SIMPLE = FieldSet(
    'vx_simple',
    p_f64=FM(TP), p_f32=FM(TP, np.float32), p_i32=FM(TP, np.int32), p_i64=FM(TP, np.int64),
    p_opt=FM(TP, np.float64, required=False),
    s_f64=FM(T), s_f32=FM(T, np.float32), s_i32=FM(T, np.int32), s_i64=FM(T, np.int64),
    s_str=FM(T, str),
    s_opt_f=FM(T, np.float64, required=False), s_opt_i=FM(T, np.int64, required=False),
    s_opt_str=FM(T, str, required=False),
    s_def=FM(T, np.int32, required=False, default=7),
)

VX_SPECIES = FieldSet(
    'vx_species',
    sv_f64=FM(TS), sv_f32=FM(TS, np.float32), sv_i32=FM(TS, np.int32),
    svp_f64=FM(TSP), svp_f32=FM(TSP, np.float32), svp_i64=FM(TSP, np.int64),
    sv_opt=FM(TS, np.float64, required=False),
    svp_opt=FM(TSP, np.float64, required=False),
)

VX_MODES = FieldSet(
    'vx_modes',
    tm_f64=FM(TM), tm_f32=FM(TM, np.float32),
    stm_f64=FM(TSM), stm_f32=FM(TSM, np.float32),
    tm_opt=FM(TM, np.float64, required=False),
    stm_opt=FM(TSM, np.float64, required=False),
)

# A second, different simple set: used to build stores with *differing* field sets.
VX_OTHER = FieldSet('vx_other', o_p=FM(TP), o_s=FM(T, np.int32))

# the FIRST per-point field of this set is optional
VX_OPTFIRST = FieldSet('vx_optfirst', q_opt=FM(TP, np.float64, required=False),
                       q_req=FM(TP, np.float32), q_s=FM(T, np.int32, required=False))

# same field NAMES as vx_other, different definitions
VX_OTHER2 = FieldSet('vx_other2', o_p=FM(T, str), o_s=FM(TP, np.float64))

# every field optional (a trajectory may leave the whole set unset)
VX_ALLOPT = FieldSet('vx_allopt', a_p=FM(TP, np.float64, required=False),
                     a_s=FM(T, np.int64, required=False), a_str=FM(T, str, required=False))

# a short, legal field-set name (also a substring of the base set's name)
VX_SE = FieldSet('se', e_p=FM(TP, np.float32), e_s=FM(T, np.int64))

ALL = {'se': VX_SE, 'vx_allopt': VX_ALLOPT, 'vx_other2': VX_OTHER2, 'vx_optfirst': VX_OPTFIRST, 'vx_simple': VX_SIMPLE, 'vx_species': VX_SPECIES, 'vx_modes': VX_MODES,
       'vx_other': VX_OTHER}

SPECIES = list(Species)

_ORIGINAL_ORDER = {n: list(fs.items()) for n, fs in ALL.items()}


def reregister_reordered(name: str, rng) -> bool:
    """"Another version of the program": the field set ``name`` is defined again with the
    same fields listed in another order (the registry accepts that: same digest)."""
    items = list(_ORIGINAL_ORDER[name])
    for _ in range(5):
        rng.shuffle(items)
        if [k for k, _ in items] != [k for k, _ in _ORIGINAL_ORDER[name]]:
            break
    else:
        return False
    ALL[name] = FieldSet(name, **dict(items))
    return True


def restore_registered_order() -> None:
    for n, items in _ORIGINAL_ORDER.items():
        if [k for k, _ in ALL[n].items()] != [k for k, _ in items]:
            ALL[n] = FieldSet(n, **dict(items))


# ---------------------------------------------------------------------------
# value generators

_F64_SPECIAL = [0.0, -0.0, 5e-324, -2.2250738585072014e-308, 1.7976931348623157e308,
                -1.7e308, 1.0, -1.0, 1e-300, 123456789.123456789]
_F32_SPECIAL = [0.0, -0.0, 1e-45, 3.4028235e38, -3.4e38, 1.0, 16777217.0, 1e-38]
_I32_SPECIAL = [0, 1, -1, 2**31 - 1, -(2**31) + 2, 12345]
_I64_SPECIAL = [0, 1, -1, 2**63 - 1, -(2**63) + 3, 2**40 + 7]
_STR_SPECIAL = ['plain', 'ünï©ødé ✈ 東京', 'a' * 300, ' lead/trail ', 'new\nline', '0']


def _scalar(rng, ft, hostile: bool):
    if ft is str:
        return rng.choice(_STR_SPECIAL) if hostile or rng.random() < 0.3 else \
            f's{rng.getrandbits(30)}'
    if ft == np.float64:
        return rng.choice(_F64_SPECIAL) if hostile and rng.random() < 0.5 else \
            rng.uniform(-1e6, 1e6)
    if ft == np.float32:
        v = rng.choice(_F32_SPECIAL) if hostile and rng.random() < 0.5 else \
            rng.uniform(-1e6, 1e6)
        return float(np.float32(v))
    if ft == np.int32:
        return rng.choice(_I32_SPECIAL) if hostile and rng.random() < 0.5 else \
            rng.randint(-10**6, 10**6)
    if ft == np.int64:
        return rng.choice(_I64_SPECIAL) if hostile and rng.random() < 0.5 else \
            rng.randint(-10**12, 10**12)
    raise AssertionError(ft)


def _array(rng, ft, n, hostile: bool):
    vals = [_scalar(rng, ft, hostile) for _ in range(n)]
    a = np.array(vals, dtype=ft)
    if hostile and ft is not str and rng.random() < 0.3:
        # the same values handed over as a non-contiguous view (column of a table, every
        # second element, reversed buffer): a caller's array need not be contiguous
        kind = rng.choice(['column', 'stride', 'reversed'])
        if kind == 'column':
            table = np.zeros((n, 3), dtype=ft)
            table[:, 1] = a
            table[:, 0] = a[::-1]
            return table[:, 1]
        if kind == 'stride':
            buf = np.zeros(2 * n, dtype=ft)
            buf[::2] = a
            buf[1::2] = a[::-1]
            return buf[::2]
        return np.ascontiguousarray(a[::-1])[::-1]
    return a


def _tmv(rng, ft, hostile):
    modes = list(ThrustMode)
    if hostile and rng.random() < 0.3:
        # a value that names only some of the modes (the others are 0), or none at all
        modes = rng.sample(modes, rng.randint(0, 3))
    return ThrustModeValues({m: float(_scalar(rng, ft, hostile)) for m in modes})


def species_plan(rng, shape: str) -> dict[str, list[Species]]:
    """Per species-indexed field: which species it carries.

    shapes: prefix (first k of the enum, what the test-suite uses), gapped (one
    non-prefix subset shared by all fields), per-field (independent subsets per
    field), full, single."""
    names = [n for n, md in list(VX_SPECIES.fields.items()) + list(VX_MODES.fields.items())
             if Dimension.SPECIES in md.dimensions]
    if shape == 'prefix':
        k = rng.randint(1, 6)
        return {n: SPECIES[:k] for n in names}
    if shape == 'full':
        return {n: list(SPECIES) for n in names}
    if shape == 'single':
        sp = rng.choice(SPECIES[1:])
        return {n: [sp] for n in names}
    if shape == 'gapped':
        while True:
            sub = sorted(rng.sample(SPECIES, rng.randint(1, 8)))
            if sub != SPECIES[:len(sub)]:
                break
        return {n: sub for n in names}
    if shape == 'per-field':
        plan = {}
        for n in names:
            plan[n] = sorted(rng.sample(SPECIES, rng.randint(1, 7)))
        if len({tuple(v) for v in plan.values()}) == 1:
            plan[names[0]] = sorted(set(SPECIES) - set(plan[names[0]]))[:3] or [SPECIES[5]]
        return plan
    raise AssertionError(shape)


def fill(traj, fs_name: str, rng, plan: dict | None = None, hostile: bool = True,
         unset_prob: float = 0.4, keep_species_fields: bool = False) -> list[str]:
    """Set every field of field set ``fs_name`` on ``traj`` (which must already
    carry it).  Optional fields are set to None with probability unset_prob.
    Returns the list of optional fields left unset."""
    n = len(traj)
    unset = []
    for name, md in ALL[fs_name].fields.items():
        if not md.required and rng.random() < unset_prob and not (
                keep_species_fields and Dimension.SPECIES in md.dimensions):
            if md.default is None or rng.random() < 0.5:
                setattr(traj, name, None)
                unset.append(name)
                continue
        dims = md.dimensions
        has_s, has_p, has_m = (Dimension.SPECIES in dims, Dimension.POINT in dims,
                               Dimension.THRUST_MODE in dims)
        ft = md.field_type
        if not has_s:
            if has_p:
                v = _array(rng, ft, n, hostile)
            elif has_m:
                v = _tmv(rng, ft, hostile)
            else:
                v = _scalar(rng, ft, hostile)
        else:
            sps = (plan or {}).get(name) or SPECIES[:2]
            if has_p:
                v = SpeciesValues({sp: _array(rng, ft, n, hostile) for sp in sps})
            elif has_m:
                v = SpeciesValues({sp: _tmv(rng, ft, hostile) for sp in sps})
            else:
                v = SpeciesValues({sp: _scalar(rng, ft, hostile) for sp in sps})
        setattr(traj, name, v)
    return unset
