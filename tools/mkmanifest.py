#!/venv/bin/python
"""Regenerate MANIFEST.json from the metadata carried by each checks/cNN.py."""
import importlib, json, subprocess, sys
from pathlib import Path
VERIF = Path(__file__).resolve().parent.parent
sys.path.insert(0, str(VERIF))
from vlib import boot
boot.boot()
props = [json.loads(l) for l in (VERIF / 'properties.jsonl').read_text().splitlines() if l.strip()]
checks, na = [], []
for p in props:
    pid = p['id']
    f = VERIF / 'checks' / f'{pid.lower()}.py'
    if not f.exists():
        na.append({'property_id': pid, 'reason': 'check not built yet (work in progress); the property is decidable by runtime monitoring, see DESIGN.md section 7'})
        continue
    m = importlib.import_module(f'checks.{pid.lower()}')
    checks.append({
        'property_id': pid,
        'quick_cmd': f'./check {pid} --tier quick',
        'thorough_cmd': f'./check {pid} --tier thorough',
        'evidence_file': f'/verif/evidence/{pid}.json',
        'replay_cmd_template': f'./check {pid} --replay {{path}}',
        'engine': 'aeic-runtime-monitors',
        'level_claimed': {'category': m.LEVEL, 'text': m.LEVEL_TEXT, 'design_ref': f'DESIGN.md section 7, {pid}'},
        'level_note': m.LEVEL_NOTE,
        'technique': m.TECHNIQUE,
    })
fixes = subprocess.run(['git', '-C', '/repo', 'log', '--format=%H %s'], capture_output=True, text=True).stdout.splitlines()
man = {
    'version': 1,
    'setup_cmd': './setup.sh',
    'hooks': {
        'guard': 'AEIC_VERIF',
        'enable': 'no source hooks: monitors attach from the harness (wrappers, icontract, sys.monitoring, audit hooks); ./check exports AEIC_VERIF=1 for harness code only',
        'baseline_off_cmd': 'cd /repo && /venv/bin/python -m pytest -ra -q -p no:cacheprovider --timeout=900 --continue-on-collection-errors',
        'source_commits': [],
        'add_only': True,
    },
    'engines': [{
        'name': 'aeic-runtime-monitors', 'path': '/verif/vlib',
        'serves_properties': [c['property_id'] for c in checks],
        'kind_free_text': 'runtime monitoring: real AEIC code from /repo/src driven by seeded hostile workloads in sharded fresh interpreters; oracles = reference models over recorded histories, independent re-implementations, postconditions, fault injection (audit hook / sys.monitoring), deterministic two-thread line scheduler',
    }],
    'checks': checks,
    'not_applicable': na,
    'notes': 'Verdicts are three-valued: exit 0 held (KNOWN-FINDING lines for listed defects), exit 1 + VIOLATION line, exit 2 + INCONCLUSIVE line (never on the unchanged tree). Known findings: /verif/known_findings.json. fix: commits in /repo: ' + '; '.join(l[:10] + ' ' + l[41:90] for l in fixes if l[41:].startswith('fix:')),
}
(VERIF / 'MANIFEST.json').write_text(json.dumps(man, indent=1) + '\n')
print('checks', len(checks), 'not_applicable', len(na))
