#!/bin/bash
# sweep_wt.sh <tier> <seeds...> : quick/thorough sweep of all checks against a scratch worktree of /repo HEAD (no lock)
TIER=$1; shift
W=$(mktemp -d /tmp/sweepwt.XXXXXX); git -C /repo worktree add --detach -q $W/repo HEAD || exit 9
cd /verif
for SEED in "$@"; do
 for c in C01 C02 C03 C04 C05 C06 C07 C08 C09 C10 C11 C12 C13 C14 C15 C16 C17 C18 C19 C20; do
  s=$(date +%s)
  VERIF_REPO=$W/repo VERIF_SEED=$SEED ./check $c --tier $TIER --no-evidence > $W/$c.$SEED.txt 2>&1; rc=$?
  echo "$c tier=$TIER seed=$SEED rc=$rc $(( $(date +%s) - s ))s $(grep -E '^VIOLATION|^INCONCLUSIVE' $W/$c.$SEED.txt | head -2 | cut -c1-220 | tr '\n' ' ')"
  [ $rc -ne 0 ] && cp $W/$c.$SEED.txt /tmp/sweepfail_${TIER}_${SEED}_$c.txt
 done
done
git -C /repo worktree remove --force $W/repo; rm -rf $W
