#!/bin/bash
# run_seeded.sh [ids...] : apply each /verif/seeded/<id>/patch.diff to /repo, run the check named in meta.json (quick, no evidence), revert.
cd /verif
IDS=${@:-$(ls seeded)}
for id in $IDS; do
  C=$(python3 -c "import json;print(json.load(open('seeded/$id/meta.json'))['detection']['check'])")
  tools/recheck_mutant.sh /verif/seeded/$id/patch.diff $C | head -2
done
