#!/usr/bin/env python3
"""kf_add.py <property> <id> <status> <commit|-> <where> <witness> <what>  (developer helper, never run by checks)"""
import json, sys
from pathlib import Path
p = Path(__file__).resolve().parent.parent / 'known_findings.json'
d = json.loads(p.read_text())
prop, fid, status, commit, where, witness, what = sys.argv[1:8]
e = {'property': prop, 'id': fid, 'status': status}
if status == 'fixed':
    e['commit'] = commit
    e['line'] = f'fixed: property={prop} {commit} {what}'
else:
    e['line'] = f'KNOWN-FINDING: property={prop} {what}'
e['where'] = where
e['witness'] = witness
d['findings'] = [x for x in d['findings'] if x['id'] != fid] + [e]
p.write_text(json.dumps(d, indent=1) + '\n')
