#!/usr/bin/env python3
"""import_seeded.py <PROP> <i> <caught-by> <initially: caught|missed> [note]  — copy a confirmed sub-agent mutation into /verif/seeded/"""
import json, shutil, sys
from pathlib import Path
P, i, caught_by, initially = sys.argv[1:5]
note = sys.argv[5] if len(sys.argv) > 5 else ''
src = Path(f'/tmp/mut/{P}-out'); dst = Path(f'/verif/seeded/{P}-m{i}'); dst.mkdir(parents=True, exist_ok=True)
shutil.copy(src / f'm{i}.diff', dst / 'patch.diff')
shutil.copy(src / f'demo_m{i}.py', dst / 'demo.py')
meta = json.loads((src / f'meta_m{i}.json').read_text())
log = (src / f'confirm_m{i}.log').read_text() if (src / f'confirm_m{i}.log').exists() else ''
conf = {l.split('=')[0]: l.split('=')[1] for l in log.splitlines() if '=' in l and l.startswith(('demo_', 'check_'))}
tests = [l for l in log.splitlines() if l.startswith('tests_with_mutation')]
out = {
 'property': P[:3], 'summary': meta.get('summary'), 'needs_to_manifest': meta.get('needs_to_manifest'), 'files': meta.get('files'),
 'author': 'independent sub-agent given only the property text and a scratch worktree',
 'confirmed_by_me': {
   'how': f'tools/confirm_mutant.sh {P} {i} {P[:3]}: scratch worktree /tmp/mut/{P}: git apply; demo (expect exit 1); full pytest suite; git checkout; demo (expect exit 0)',
   'demo_exit_with_mutation': conf.get('demo_with_mutation_rc'), 'demo_exit_without_mutation': conf.get('demo_without_mutation_rc'),
   'test_suite_with_mutation': tests[0].split(': ', 1)[1] if tests else None},
 'detection': {'check': caught_by, 'first_run': initially, 'final': 'caught (exit 1 with VIOLATION line) by ./check ' + caught_by + ' --tier quick with the patch applied to /repo', 'note': note},
}
(dst / 'meta.json').write_text(json.dumps(out, indent=1) + '\n')
print(dst)
