#!/bin/bash
# confirm_mutant.sh <PROP> <i> [check-ids...]  : confirm a sub-agent's mutation in its scratch worktree
# (demo fails with / passes without, test-suite passes with), then run our check(s) against it in /repo.
P=$1; I=$2; shift 2; CHECKS=${@:-$P}
WT=/tmp/mut/$P; OUT=/tmp/mut/$P-out; LOG=$OUT/confirm_m$I.log
exec > >(tee $LOG) 2>&1
cd $WT || exit 9
git checkout -q -- . ; git apply $OUT/m$I.diff || { echo "APPLY-FAILED"; exit 9; }
PYTHONPATH=$WT/src timeout 600 /venv/bin/python $OUT/demo_m$I.py > $OUT/demo_m$I.with.txt 2>&1; echo "demo_with_mutation_rc=$?"
PYTHONPATH=$WT/src timeout 1500 /venv/bin/python -m pytest -q -p no:cacheprovider --timeout=900 -x 2>&1 | tail -1 | sed 's/^/tests_with_mutation: /'
git checkout -q -- .
PYTHONPATH=$WT/src timeout 600 /venv/bin/python $OUT/demo_m$I.py > $OUT/demo_m$I.without.txt 2>&1; echo "demo_without_mutation_rc=$?"
# our checks, against /repo with the patch applied (serialised via lock: /repo is shared)
(
 flock 9
 cd /repo && git apply $OUT/m$I.diff || { echo "REPO-APPLY-FAILED"; exit 9; }
 for C in $CHECKS; do
   cd /verif && ./check $C --tier quick --no-evidence > $OUT/check_m$I.$C.txt 2>&1; echo "check_${C}_rc=$?"
   grep -E "^VIOLATION|violation mechanism|^INCONCLUSIVE" $OUT/check_m$I.$C.txt | cut -c1-300 | head -8
 done
 cd /repo && git checkout -q -- .
) 9>/tmp/mut/repo.lock
