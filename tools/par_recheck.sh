#!/bin/bash
# par_recheck.sh <diff> <check-id> [extra args] : run one check against a scratch worktree of /repo HEAD with
# the diff applied (no lock, /repo itself untouched) - several of these may run side by side.
D=$1; C=$2; shift 2
W=$(mktemp -d /tmp/par.XXXXXX)
git -C /repo worktree add --detach -q $W/repo HEAD || exit 9
if git -C $W/repo apply $D; then
  cd /verif && VERIF_REPO=$W/repo ./check $C --no-evidence "$@" > $W/out.txt 2>&1; rc=$?
  echo "$(basename $(dirname $D))/$(basename $D) -> $C rc=$rc $(grep -E '^VIOLATION|^INCONCLUSIVE' $W/out.txt | head -1 | cut -c1-120)"
  grep -E "violation mechanism" $W/out.txt | head -2 | cut -c1-220
else
  echo "APPLY-FAILED $D"
fi
git -C /repo worktree remove --force $W/repo; rm -rf $W
