#!/bin/bash
# sweep.sh <tier> <seed> [ids...] : run checks one after the other against /repo, each under the
# repo lock (so that mutant confirmation cannot patch /repo underneath); no evidence written.
TIER=$1; SEED=$2; shift 2
IDS=${@:-C01 C02 C03 C04 C05 C06 C07 C08 C09 C10 C11 C12 C13 C14 C15 C16 C17 C18 C19 C20}
cd "$(dirname "$0")/.."
for c in $IDS; do
  s=$(date +%s)
  flock /tmp/mut/repo.lock env VERIF_SEED=$SEED ./check $c --tier $TIER --no-evidence > /tmp/sweep_${TIER}_${SEED}_$c.txt 2>&1; rc=$?
  echo "$c tier=$TIER seed=$SEED rc=$rc $(( $(date +%s) - s ))s $(grep -E '^VIOLATION|^INCONCLUSIVE' /tmp/sweep_${TIER}_${SEED}_$c.txt | head -3 | cut -c1-200 | tr '\n' ' ')"
done
