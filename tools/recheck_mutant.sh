#!/bin/bash
# recheck_mutant.sh <diff> <check-id> [extra args]: apply diff to /repo, run one check (no evidence), revert.
D=$1; C=$2; shift 2
(
 flock 9
 cd /repo && git apply $D || { echo "REPO-APPLY-FAILED $D"; exit 9; }
 cd /verif && ./check $C --no-evidence "$@" > /tmp/mut/recheck.$$.txt 2>&1; rc=$?
 echo "$(basename $(dirname $D))/$(basename $D) -> $C rc=$rc"
 grep -E "^VIOLATION|violation mechanism|^INCONCLUSIVE" /tmp/mut/recheck.$$.txt | cut -c1-260 | head -5
 cd /repo && git checkout -q -- .
 rm -f /tmp/mut/recheck.$$.txt
) 9>/tmp/mut/repo.lock
