#!/bin/bash
# par_seeded.sh [-j N] [ids...] : replay every seeded change against its check in scratch worktrees, N at a time
J=3; if [ "$1" = "-j" ]; then J=$2; shift 2; fi
cd /verif
IDS=${@:-$(ls seeded)}
for id in $IDS; do
  C=$(python3 -c "import json;print(json.load(open('seeded/$id/meta.json'))['detection']['check'])")
  echo "$id $C"
done | xargs -P $J -L 1 bash -c 'tools/par_recheck.sh /verif/seeded/$0/patch.diff $1 --jobs 8 | head -1'
