#!/bin/bash
# Offline setup: put icontract (+deps) beside the harness, in the git-ignored .deps.
HERE="$(cd "$(dirname "$0")" && pwd)"
cd "$HERE" || exit 3
if ! PYTHONPATH="$HERE/.deps" /venv/bin/python -c "import icontract" 2>/dev/null; then
  /venv/bin/pip install -q --no-index --find-links /opt/veriftools/wheels --target "$HERE/.deps" icontract || exit 1
fi
mkdir -p "$HERE/evidence" "$HERE/replay"
PYTHONPATH="$HERE/.deps" /venv/bin/python -c "import icontract, AEIC; print('setup ok', icontract.__version__)"
